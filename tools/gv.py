#!/usr/bin/env python3
"""debug aid: evaluate terms in the model of a dumped (sat) ground query: gv.py file.smt2 term..."""
import sys,subprocess
f=sys.argv[1]; terms=sys.argv[2:]
s=open(f).read()
s=s.replace('(check-sat)','(check-sat)\n(get-value (%s))'%' '.join(terms))
open('/tmp/_gv.smt2','w').write('(set-option :produce-models true)\n'+s)
print(subprocess.run(['z3-new','-T:60','/tmp/_gv.smt2'],capture_output=True,text=True).stdout[:4000])
