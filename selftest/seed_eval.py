#!/usr/bin/env python3
"""Evaluate a seeded change: seeded/<name>/{patch.diff, demo test, meta.json}.
Confirms in a scratch copy of /repo (outside /repo and /verif): patch applies, builds, package tests pass,
demo fails with the change and passes without it; then runs the property's check against the changed copy.
usage: seed_eval.py <name> [--no-confirm]"""
import json, os, subprocess, sys, tempfile, shutil, glob
V='/verif'
name=sys.argv[1]
d=f'{V}/seeded/{name}'
meta=json.load(open(f'{d}/meta.json'))
env=dict(os.environ, GOFLAGS='-mod=mod', GOPROXY='off', GOSUMDB='off', GOTOOLCHAIN='local')
tmp=tempfile.mkdtemp(prefix='gvcseed')
def run(cmd, cwd=tmp, timeout=1800):
    r=subprocess.run(cmd, cwd=cwd, shell=True, capture_output=True, text=True, env=env, timeout=timeout)
    return r.returncode, (r.stdout+r.stderr)
try:
    subprocess.run(['rsync','-a','--exclude','.git','/repo/',tmp+'/'],check=True)
    demo=meta['demo_file']; demo_dst=os.path.join(tmp, meta['demo_dir'], os.path.basename(demo))
    res={}
    if '--no-confirm' not in sys.argv:
        shutil.copy(f'{d}/{demo}', demo_dst)
        rc,out=run(f"go test -count=1 -vet=off -run '{meta['demo_run']}' ./{meta['demo_dir']}")
        res['demo_without_change']='pass' if rc==0 else 'FAIL'
        os.remove(demo_dst)
    rc,out=run(f'patch -p1 < {d}/patch.diff')
    if rc!=0:
        print('patch does not apply:', out[-400:]); sys.exit(2)
    if '--no-confirm' not in sys.argv:
        rc,out=run('go build ./... && go vet ./'+meta['demo_dir'])
        res['build']='ok' if rc==0 else 'FAIL '+out[-300:]
        rc,out=run(meta['tests_cmd'])
        res['existing_tests_with_change']='pass' if rc==0 else 'FAIL '+out[-400:]
        shutil.copy(f'{d}/{demo}', demo_dst)
        rc,out=run(f"go test -count=1 -vet=off -run '{meta['demo_run']}' ./{meta['demo_dir']}")
        res['demo_with_change']='fail (as required)' if rc!=0 else 'PASSES (seed invalid)'
        os.remove(demo_dst)
    checks={}
    for prop in meta['check_props']:
        r=subprocess.run([f'{V}/bin/gvc','check','-repo',tmp,'-no-evidence','-replay-dir',tmp+'/.replays',prop],capture_output=True,text=True)
        obl=[l.strip().replace('failed obligation: ','') for l in r.stdout.splitlines() if 'failed obligation' in l]
        checks[prop]={'exit':r.returncode,'failed_obligations':obl[:6]}
    res['checks']=checks
    print(json.dumps(res,indent=1))
finally:
    shutil.rmtree(tmp,ignore_errors=True)
