#!/usr/bin/env python3
"""Self-test corpus for gvc (not a registered check).

selftest/mutants/<prop>/<name>.json : {"file": "...", "old": "...", "new": "...", "expect": "violation"|"pass",
                                       "note": "...", "obligation": "substring expected in a VIOLATION's failed obligation (optional)"}
Each mutant is applied to a scratch copy of /repo (outside /repo and /verif), the property's check is run
against the copy, and the scratch copy is removed.  Reverse patches of the fix: commits act as canaries.
usage: selftest/run.py [prop ...] [-k substring]
"""
import json, glob, os, subprocess, sys, tempfile, shutil, time
V = '/verif'
args = [a for a in sys.argv[1:] if not a.startswith('-')]
focus = '--focus' in sys.argv   # fast mode: verify only the function named by the mutant's "obligation" field
kfilter = None
if '-k' in sys.argv:
    kfilter = sys.argv[sys.argv.index('-k') + 1]
    args = [a for a in args if a != kfilter]
files = sorted(glob.glob(f'{V}/selftest/mutants/*/*.json'))
jobs = 1
if '-j' in sys.argv:
    jobs = int(sys.argv[sys.argv.index('-j') + 1])
    args = [a for a in args if a != str(jobs)]
import threading
from concurrent.futures import ThreadPoolExecutor
lock = threading.Lock()
counts = {'ok': 0, 'bad': 0}
def run_one(f):
    prop = os.path.basename(os.path.dirname(f))
    if args and prop not in args:
        return
    if kfilter and kfilter not in f:
        return
    m = json.load(open(f))
    tmp = tempfile.mkdtemp(prefix='gvcself')
    try:
        subprocess.run(['rsync', '-a', '--exclude', '.git', '/repo/', tmp + '/'], check=True)
        edits = m.get('edits') or [m]
        fail = None
        for e in edits:
            p = os.path.join(tmp, e['file'])
            s = open(p).read()
            if s.count(e['old']) != 1:
                fail = f"pattern occurs {s.count(e['old'])} times in {e['file']}"
                break
            open(p, 'w').write(s.replace(e['old'], e['new']))
        if fail:
            print(f'STALE  {prop}/{os.path.basename(f)}: {fail}')
            with lock: counts['bad'] += 1
            return
        if m.get('build', True):
            b = subprocess.run(['go', 'build', './...'], cwd=tmp, capture_output=True, text=True,
                               env=dict(os.environ, GOFLAGS='-mod=mod', GOPROXY='off', GOSUMDB='off', GOTOOLCHAIN='local'))
            if b.returncode != 0:
                print(f'NOBUILD {prop}/{os.path.basename(f)}: {b.stderr[:300]}')
                with lock: counts['bad'] += 1
                return
        t0 = time.time()
        extra = ['-focus', m['obligation']] if (focus and m.get('obligation') and m['expect'] == 'violation' and not m.get('nofocus')) else []
        r = subprocess.run([f'{V}/bin/gvc', 'check', '-repo', tmp, '-no-evidence', '-replay-dir', tmp + '/.replays'] + extra + [prop],
                           capture_output=True, text=True)
        viol = [l for l in r.stdout.splitlines() if l.startswith('VIOLATION') or l.startswith('  failed obligation')]
        got = 'violation' if r.returncode != 0 else 'pass'
        good = got == m['expect']
        if good and m.get('obligation') and got == 'violation':
            good = any(m['obligation'] in l for l in viol)
        tag = 'ok    ' if good else 'WRONG '
        with lock:
            counts['ok' if good else 'bad'] += 1
        obl = '; '.join(l.strip().replace('failed obligation: ', '') for l in viol if 'failed obligation' in l)[:200]
        print(f'{tag} {prop}/{os.path.basename(f)[:-5]}: expected {m["expect"]}, got {got} ({time.time()-t0:.0f}s) {obl}')
        if not good and r.returncode not in (0, 1):
            print(r.stdout[-500:], r.stderr[-500:])
    finally:
        shutil.rmtree(tmp, ignore_errors=True)
with ThreadPoolExecutor(max_workers=jobs) as ex:
    list(ex.map(run_one, files))
ok, bad = counts['ok'], counts['bad']
print(f'selftest: {ok} as expected, {bad} wrong')
sys.exit(1 if bad else 0)
