#!/bin/sh
# usage: seed_ingest.sh <seed id> <demo dir relative to repo root> <props comma separated> -- copies a sub-agent's deliverables into /verif/seeded/<id>
set -e
id=$1; dir=$2; props=$3
src=/tmp/seedwt/$id/SEEDED
mkdir -p /verif/seeded/$id
cp $src/patch.diff $src/notes.md /verif/seeded/$id/
cp $src/zz_seeded_demo_test.go /verif/seeded/$id/
pj=$(echo $props | sed 's/,/","/g')
[ -f /verif/seeded/$id/meta.json ] || cat > /verif/seeded/$id/meta.json <<EOM
{
 "property": "$(echo $id | cut -c1-3)",
 "breaks": "",
 "needs": "",
 "demo_file": "zz_seeded_demo_test.go",
 "demo_dir": "$dir",
 "demo_run": "TestSeeded",
 "tests_cmd": "true",
 "check_props": ["$pj"],
 "source": "sub-agent given only the property text and a scratch worktree (round 6)"
}
EOM
