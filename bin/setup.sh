#!/bin/sh
# Builds the gvc verifier offline from files on disk only.
set -e
export GOFLAGS=-mod=mod GOPROXY=off GOSUMDB=off GOTOOLCHAIN=local
cd /verif/gvc
go build -o /verif/bin/gvc .
echo "gvc built"
