package main

// Calls (contracts, inlining, builtins, intrinsics), defers, loops.

import (
	"fmt"
	"go/token"
	"go/types"
	"math/big"
	"os"
	"sort"
	"strings"

	"golang.org/x/tools/go/ssa"
)

const maxInlineDepth = 8

var inlineStdlib = map[string]bool{
	"encoding/binary": true,
}

func (fv *FV) sentinelGlobal(st *State, g *ssa.Global) (Value, bool) {
	et := g.Type().(*types.Pointer).Elem()
	if !types.IsInterface(et) || et.String() != "error" {
		return nil, false
	}
	key := g.Pkg.Pkg.Path() + "." + g.Name()
	id, ok := fv.sentinel[key]
	if !ok {
		id = len(globalSentinels) + 1
		if v, ok := globalSentinels[key]; ok {
			id = v
		} else {
			globalSentinels[key] = id
		}
		fv.sentinel[key] = id
	}
	return IfaceV{Ref: Obj(IntLit(int64(-2000000 - id))), Typ: IntLit(int64(typeIDByName("*errors.errorString")))}, true
}

var globalSentinels = map[string]int{}

func typeIDByName(k string) int {
	if id, ok := typeIDs[k]; ok {
		return id
	}
	id := len(typeIDs) + 1
	typeIDs[k] = id
	typeIDNames[id] = k
	return id
}

func hasLoops(fn *ssa.Function) bool {
	for _, b := range fn.Blocks {
		for _, s := range b.Succs {
			if s.Dominates(b) {
				return true
			}
		}
	}
	return false
}

func (fv *FV) execCall(fr *Frame, st *State, x *ssa.Call) []Outcome {
	common := x.Common()
	var args []Value
	var argTypes []types.Type
	if common.IsInvoke() {
		recv := fv.val(fr, common.Value)
		args = append(args, recv)
		argTypes = append(argTypes, common.Value.Type())
	}
	for _, a := range common.Args {
		args = append(args, fv.val(fr, a))
		argTypes = append(argTypes, a.Type())
	}
	if common.IsInvoke() {
		iv := args[0].(IfaceV)
		g := Neq(iv.Typ, IntLit(0))
		if !g.IsTrue() {
			fv.oblige(st, fmt.Sprintf("nil-deref #%d", fv.ordinal("nil-deref", x)), g, x.Pos())
			st.assume(g)
		}
		c := fv.ifaceContract(common)
		if c == nil {
			sig := common.Method.Type().(*types.Signature)
			if fv.externalOpaque(common.Value.Type(), argTypes[1:]) {
				name := fmt.Sprintf("%s.%s", common.Value.Type(), common.Method.Name())
				return fv.opaqueExternalCall(st, name, sig.Results())
			}
			fv.fail("no contract for interface method %s.%s (called in %s at %s)", common.Value.Type(), common.Method.Name(), fr.fn.Name(), fv.pos(x.Pos()))
		}
		sig := common.Method.Type().(*types.Signature)
		return fv.applyContract(fr, st, c, args, ifaceParamTypes(common.Value.Type(), sig), sig.Results(), x, common.Method.Name())
	}
	switch callee := common.Value.(type) {
	case *ssa.Builtin:
		if callee.Name() == "append" && fv.l.mode == ModeInt {
			if t, ok := args[1].(SliceV); ok {
				return fv.appendCases(st, args[0].(SliceV), t, argTypes[0].Underlying().(*types.Slice).Elem(), x)
			}
		}
		res := fv.builtin(fr, st, callee, args, argTypes, x)
		return []Outcome{{st: st, results: unwrap(res)}}
	case *ssa.Function:
		return fv.callStatic(fr, st, callee, args, nil, x)
	case *ssa.MakeClosure:
		cv := fv.val(fr, callee).(ClosureV)
		return fv.callStatic(fr, st, cv.Fn, args, cv.Bindings, x)
	default:
		fvv := fv.val(fr, common.Value)
		switch f := fvv.(type) {
		case ClosureV:
			return fv.callStatic(fr, st, f.Fn, args, f.Bindings, x)
		case FuncV:
			if f.Fn != nil {
				return fv.callStatic(fr, st, f.Fn, args, nil, x)
			}
		}
		// call through a function-typed parameter or field: callback contract
		if cb := fv.callbackFor(fr, common.Value); cb != nil {
			return fv.applyCallback(fr, st, cb, args, common.Signature(), x)
		}
		// value of a named function type with a `functype` contract
		if nt, ok := common.Value.Type().(*types.Named); ok && nt.Obj().Pkg() != nil {
			if c := fv.P.Specs.Contracts[nt.Obj().Pkg().Path()+"::functype "+nt.Obj().Name()]; c != nil {
				sig := common.Signature()
				var pts []types.Type
				for i := 0; i < sig.Params().Len(); i++ {
					pts = append(pts, sig.Params().At(i).Type())
				}
				return fv.applyContract(fr, st, c, args, pts, sig.Results(), x, nt.Obj().Name())
			}
		}
		fv.fail("dynamic call of %s in %s at %s needs a callback contract", common.Value.Name(), fr.fn.Name(), fv.pos(x.Pos()))
	}
	return nil
}

func unwrap(v Value) []Value {
	if v == nil {
		return nil
	}
	if t, ok := v.(TupleV); ok {
		return []Value(t)
	}
	return []Value{v}
}

func ifaceParamTypes(recv types.Type, sig *types.Signature) []types.Type {
	ts := []types.Type{recv}
	for i := 0; i < sig.Params().Len(); i++ {
		ts = append(ts, sig.Params().At(i).Type())
	}
	return ts
}

func (fv *FV) ifaceContract(common *ssa.CallCommon) *Contract {
	m := common.Method
	try := func(t types.Type) *Contract {
		if n, ok := t.(*types.Named); ok && n.Obj().Pkg() != nil {
			if c := fv.P.Specs.Contracts[n.Obj().Pkg().Path()+"::"+n.Obj().Name()+"."+m.Name()]; c != nil {
				return c
			}
		} else if ok && n.Obj().Pkg() == nil { // error
			if c := fv.P.Specs.Contracts["::"+n.Obj().Name()+"."+m.Name()]; c != nil {
				return c
			}
		}
		return nil
	}
	if c := try(common.Value.Type()); c != nil {
		return c
	}
	// the interface in which the method was declared
	if sig, ok := m.Type().(*types.Signature); ok && sig.Recv() != nil {
		if c := try(sig.Recv().Type()); c != nil {
			return c
		}
	}
	// any interface contract with this method name in the method's package
	if m.Pkg() != nil {
		for k, c := range fv.P.Specs.Contracts {
			if c.IsIface && strings.HasPrefix(k, m.Pkg().Path()+"::") && strings.HasSuffix(c.Key, "."+m.Name()) {
				return c
			}
		}
	}
	return nil
}

func (fv *FV) callStatic(fr *Frame, st *State, fn *ssa.Function, args []Value, bindings []Value, x *ssa.Call) []Outcome {
	full := fn.String()
	if res, ok := fv.intrinsic(st, full, fn, args, x); ok {
		return []Outcome{{st: st, results: unwrap(res)}}
	}
	if c := fv.P.ContractFor(fn); c != nil && !c.Inline && bindings == nil {
		var pts []types.Type
		for _, p := range fn.Params {
			pts = append(pts, p.Type())
		}
		return fv.applyContract(fr, st, c, args, pts, fn.Signature.Results(), x, c.Key)
	}
	pkgPath, _ := FuncKey(fn)
	if fn.Parent() != nil || fv.P.InRepo(fn) || inlineStdlib[pkgPath] || bindings != nil {
		if fr.depth >= maxInlineDepth {
			fv.fail("inline depth exceeded at %s", full)
		}
		if hasLoops(fn) {
			fv.fail("callee %s has loops and no contract (called from %s at %s)", full, fr.fn.Name(), fv.pos(x.Pos()))
		}
		if len(fn.Blocks) == 0 {
			fv.fail("callee %s has no body and no contract", full)
		}
		fv.inlined[full] = true
		nf := fv.newFrame(fn, fr.depth+1, false)
		return fv.execBody(nf, st, args, bindings)
	}
	if !fv.P.InRepo(fn) {
		var pts []types.Type
		for _, p := range fn.Params {
			pts = append(pts, p.Type())
		}
		if fv.externalOpaque(nil, pts) {
			return fv.opaqueExternalCall(st, full, fn.Signature.Results())
		}
	}
	fv.fail("call to %s (from %s at %s) has no contract", full, fr.fn.Name(), fv.pos(x.Pos()))
	return nil
}

// externalOpaque: a function or interface method from outside the repository that has no assumed contract may be
// treated as opaque (arbitrary results, no effect on anything the repository can observe) only if it cannot reach the
// repository's mutable memory through its arguments: basic values, strings, and objects of non-repository types.
func (fv *FV) externalOpaque(recv types.Type, params []types.Type) bool {
	safe := func(t types.Type) bool {
		inRepo := func(n *types.Named) bool {
			return n.Obj().Pkg() != nil && strings.HasPrefix(n.Obj().Pkg().Path(), repoModule)
		}
		switch u := t.(type) {
		case *types.Named:
			if inRepo(u) {
				return false
			}
			switch u.Underlying().(type) {
			case *types.Interface, *types.Basic, *types.Struct:
				return true
			}
			return false
		case *types.Basic:
			return true
		case *types.Pointer:
			if n, ok := u.Elem().(*types.Named); ok && !inRepo(n) {
				return true
			}
			return false
		case *types.Interface:
			return u.NumMethods() == 0 && false
		}
		return false
	}
	if recv != nil && !safe(recv) {
		return false
	}
	for _, p := range params {
		if !safe(p) {
			return false
		}
	}
	return true
}

func (fv *FV) opaqueExternalCall(st *State, name string, results *types.Tuple) []Outcome {
	fv.trusted["external call without a contract, treated as opaque (arbitrary result, no effect on repository state): "+name] = true
	var res []Value
	for i := 0; i < results.Len(); i++ {
		t := results.At(i).Type()
		v := fv.freshValue("ext_"+sanitize(name), t)
		fv.assumeType(st, v, t)
		res = append(res, v)
	}
	return []Outcome{{st: st, results: res}}
}

// bindContract builds the specification environment for a contract applied to arguments.
func (fv *FV) bindContract(c *Contract, st *State, args []Value, argTypes []types.Type) *Env {
	env := &Env{fv: fv, pkg: c.Pkg, st: st, vars: map[string]TV{}}
	i := 0
	if c.Recv != nil {
		if len(args) == 0 {
			fv.fail("contract %s: receiver expected", c.Key)
		}
		env.vars[c.Recv.Name] = TV{args[0], argTypes[0]}
		i = 1
	}
	if len(c.Params) != len(args)-i {
		fv.fail("contract %s (%s): %d parameters declared, function has %d", c.Key, c.Pos, len(c.Params), len(args)-i)
	}
	for k, p := range c.Params {
		env.vars[p.Name] = TV{args[i+k], argTypes[i+k]}
	}
	return env
}

func (fv *FV) applyContract(fr *Frame, st *State, c *Contract, args []Value, argTypes []types.Type, results *types.Tuple, x ssa.Instruction, calleeName string) []Outcome {
	if c.Trusted {
		fv.trusted[c.Pkg+"::"+c.Key] = true
	} else {
		fv.used[c.Pkg+"::"+c.Key] = true
	}
	ord := fv.ordinal("call "+calleeName, x)
	env := fv.bindContract(c, st, args, argTypes)
	for i, r := range c.Requires {
		g := env.evalBool(r)
		fv.oblige(st, fmt.Sprintf("call-pre %s #%d / requires %d", calleeName, ord, i+1), g, x.Pos())
		st.assume(g)
	}
	if c.PanicMaybe != "" && fv.c.PanicMaybe == "" {
		fv.oblige(st, fmt.Sprintf("call-no-panic %s #%d", calleeName, ord), False, x.Pos())
	}
	if c.PanicWhen != nil && fv.c.PanicMaybe != "" {
		fv.trusted["may panic ("+fv.name+"): "+fv.c.PanicMaybe] = true
		st.assume(Not(env.evalBool(c.PanicWhen)))
	} else if c.PanicWhen != nil {
		pc := env.evalBool(c.PanicWhen)
		allowed := False
		if fv.c.PanicWhen != nil && fr.top {
			pe := &Env{fv: fv, pkg: fv.pkgPath, st: fv.entry, vars: fv.entryEnv}
			allowed = pe.evalBool(fv.c.PanicWhen)
		}
		fv.oblige(st, fmt.Sprintf("call-no-panic %s #%d", calleeName, ord), Implies(pc, allowed), x.Pos())
		st.assume(Not(pc))
	}
	pre := st.clone()
	locs := env.evalLocs(c.Modifies)
	penv := *env
	penv.st = pre
	locs = append(locs, penv.evalEach(c.ModEach)...)
	locs = append(locs, penv.evalAllExcept(c.ModAll)...)
	for _, m := range locs {
		fv.frameCheckLoc(st, m, x, calleeName, ord)
	}
	// the callee may allocate: the watermark moves before the havoc, so that a havoced reference cell may hold an object
	// the callee created (with the old watermark "modifies x.f; ensures fresh(x.f)" made the path contradictory, i.e. every
	// obligation after such a call was discharged vacuously)
	nwm := fv.fresh("wm", IntSort)
	st.assume(Ge(nwm, st.wm))
	st.wm = nwm
	fv.havoc(st, locs, "h_"+calleeName)
	if len(c.Results) != results.Len() {
		fv.fail("contract %s (%s): %d results declared, function has %d", c.Key, c.Pos, len(c.Results), results.Len())
	}
	var res []Value
	post := env.child()
	post.st = st
	post.old = pre
	for i := 0; i < results.Len(); i++ {
		v := fv.freshValue("r_"+calleeName+"_"+c.Results[i].Name, results.At(i).Type())
		fv.assumeType(st, v, results.At(i).Type())
		res = append(res, v)
		post.vars[c.Results[i].Name] = TV{v, results.At(i).Type()}
	}
	for _, fname := range c.Fresh {
		tv, ok := post.vars[fname]
		if !ok {
			fv.fail("contract %s: fresh(%s) names no result", c.Key, fname)
		}
		switch v := tv.V.(type) {
		case Scalar:
			st.assume(Or(Eq(v.T, NilRef), Ge(RootID(v.T), pre.wm)))
		case SliceV:
			st.assume(Or(Eq(v.Arr, NilRef), Ge(RootID(v.Arr), pre.wm)))
		}
	}
	fv.applyGhostDefs(post, st, c.GhostDefs)
	for _, e := range c.Ensures {
		if os.Getenv("GVC_TRACE") != "" {
			t := post.evalBool(e)
			fmt.Printf("TRACE %s ensures %s => %s\n", calleeName, e.String(), truncate(t.String(), 300))
		}
		post.assume(st, e)
	}
	for _, e := range c.Assumed {
		post.assume(st, e)
		fv.trusted[c.Pkg+"::"+c.Key+" [assumed clause: "+e.String()+"]"] = true
	}
	// intermediate assertions of the function under verification (cut points)
	if fr.top && fv.c != nil {
		stop := false
		for i, ca := range fv.c.Asserts {
			if ca.Loop != 0 || ca.Ord != ord || !(ca.Callee == calleeName || strings.HasSuffix(calleeName, ")."+ca.Callee) || strings.HasSuffix(calleeName, "."+ca.Callee)) {
				continue
			}
			if ca.Stop {
				stop = true
				continue
			}
			aenv := fv.loopEnv(fr, st)
			for k, v := range res {
				aenv.vars[fmt.Sprintf("result%d", k)] = TV{v, results.At(k).Type()}
			}
			if len(res) > 0 {
				aenv.vars["result"] = TV{res[0], results.At(0).Type()}
			}
			if ca.Let != "" {
				v := aenv.eval(ca.Expr)
				fv.flushSide(st)
				if fv.lets == nil {
					fv.lets = map[string]TV{}
				}
				fv.lets[ca.Let] = v
				continue
			}
			g := aenv.evalBool(ca.Expr)
			fv.oblige(st, fmt.Sprintf("assert #%d (after %s #%d)", i+1, ca.Callee, ca.Ord), g, x.Pos())
			fv.flushSide(st)
			st.assume(g)
		}
		if stop {
			fv.pathDone()
			return nil
		}
	}
	return []Outcome{{st: st, results: res}}
}

func (fv *FV) frameCheckLoc(st *State, m modLoc, in ssa.Instruction, callee string, ord int) {
	if st.modsAny {
		return
	}
	kind := fmt.Sprintf("call-frame %s #%d", callee, ord)
	var g *Term
	switch m.kind {
	case "cell", "gcell":
		g = fv.frameAlts(st, m.addr, false, nil, nil)
		if m.guard != nil {
			g = Implies(m.guard, g)
		}
	case "mem":
		// an empty window modifies nothing
		g = Or(fv.idxLe(m.hi, m.lo), fv.frameAlts(st, m.addr, true, m.lo, m.hi))
		if m.guard != nil {
			g = Implies(m.guard, g)
		}
	case "fields":
		g = fv.frameAlts(st, Emb(m.addr, -1), false, nil, nil)
		if m.guard != nil {
			g = Implies(m.guard, g)
		}
	case "map":
		g = fv.frameAlts(st, Emb(m.addr, -2), false, nil, nil)
	case "allexcept":
		// the caller must itself declare an all-except frame protecting no more than the callee does
		g = False
		for _, c := range st.mods {
			if c.kind != "allexcept" {
				continue
			}
			ok := true
			for f := range c.exceptFids {
				if !m.exceptFids[f] {
					ok = false
				}
			}
			for f := range c.exceptMaps {
				if !m.exceptMaps[f] {
					ok = false
				}
			}
			for f := range c.exceptGhost {
				if !m.exceptGhost[f] {
					ok = false
				}
			}
			if ok {
				g = True
				if c.guard != nil {
					g = c.guard
				}
				if m.guard != nil {
					g = Implies(m.guard, g)
				}
			}
		}
	case "each":
		// every target object of the callee must be covered by the caller's frame
		fv.nfresh++
		xo := BoundVar(fmt.Sprintf("x!ef%d", fv.nfresh), RefSort)
		var alts []*Term
		alts = append(alts, Ge(mk("rootid", IntSort, xo), st.frameWM))
		for _, c := range st.mods {
			if c.kind == "allexcept" {
				prot := false
				for _, f := range m.fids {
					if c.exceptFids[f] {
						prot = true
					}
				}
				if !prot {
					if c.guard != nil {
						alts = append(alts, c.guard)
					} else {
						alts = append(alts, True)
					}
				}
			}
			if c.kind == "each" {
				covers := true
				for _, f := range m.fids {
					has := false
					for _, g := range c.fids {
						if g == f {
							has = true
						}
					}
					if !has {
						covers = false
					}
				}
				if covers {
					alts = append(alts, c.cond(xo))
				}
			}
		}
		g = Forall([]*Term{xo}, Implies(m.cond(xo), Or(alts...)))
	case "ghost":
		if gv := fv.P.Specs.GhostV[m.name]; gv != nil && gv.Log {
			return
		}
		g = False
		for _, c := range st.mods {
			if c.kind == "ghost" && c.name == m.name {
				g = True
			}
			if c.kind == "allexcept" && !c.exceptGhost[m.name] {
				if c.guard != nil {
					g = Or(g, c.guard)
				} else {
					g = True
				}
			}
		}
	case "ghostidx":
		if gv := fv.P.Specs.GhostV[m.name]; gv != nil && gv.Log {
			return
		}
		alts := []*Term{}
		for _, c := range st.mods {
			if c.kind == "allexcept" && !c.exceptGhost[m.name] {
				if c.guard != nil {
					alts = append(alts, c.guard)
				} else {
					alts = append(alts, True)
				}
			}
			if c.kind == "ghost" && c.name == m.name {
				alts = append(alts, True)
			}
			if c.kind == "ghostidx" && c.name == m.name {
				alts = append(alts, Eq(c.idx, m.idx))
			}
		}
		g = Or(alts...)
	}
	if g == nil || g.IsTrue() {
		return
	}
	fv.oblige(st, kind, g, in.Pos())
}

// ---------------------------------------------------------------- callbacks (function-typed parameters)

func (fv *FV) callbackFor(fr *Frame, v ssa.Value) *CallbackContract {
	if !fr.top || fv.c == nil {
		return nil
	}
	// value loaded from a parameter cell
	if u, ok := v.(*ssa.UnOp); ok && u.Op == token.MUL {
		if a, ok := u.X.(*ssa.Alloc); ok {
			for i, p := range fv.fn.Params {
				if p.Name() == a.Comment {
					k := i
					if fv.c.Recv != nil {
						k = i - 1
					}
					if k >= 0 && k < len(fv.c.Params) {
						if cb := fv.c.Callbacks[fv.c.Params[k].Name]; cb != nil {
							return cb
						}
					}
				}
			}
		}
	}
	return nil
}

func (fv *FV) applyCallback(fr *Frame, st *State, cb *CallbackContract, args []Value, sig *types.Signature, x *ssa.Call) []Outcome {
	ord := fv.ordinal("callback "+cb.Param, x)
	env := &Env{fv: fv, pkg: fv.pkgPath, st: st, old: fv.entry, vars: map[string]TV{}, fr: fr}
	for k, v := range fv.entryEnv {
		env.vars[k] = v
	}
	for i, a := range args {
		env.vars[fmt.Sprintf("arg%d", i)] = TV{a, sig.Params().At(i).Type()}
	}
	for i, r := range cb.Requires {
		g := env.evalBool(r)
		fv.oblige(st, fmt.Sprintf("callback-pre %s #%d / requires %d", cb.Param, ord, i+1), g, x.Pos())
		st.assume(g)
	}
	pre := st.clone()
	locs := env.evalLocs(cb.Modifies)
	for _, m := range locs {
		fv.frameCheckLoc(st, m, x, "callback "+cb.Param, ord)
	}
	fv.havoc(st, locs, "cb_"+cb.Param)
	nwm := fv.fresh("wm", IntSort)
	st.assume(Ge(nwm, st.wm))
	st.wm = nwm
	post := env.child()
	post.st = st
	post.old = pre
	var res []Value
	for i := 0; i < sig.Results().Len(); i++ {
		v := fv.freshValue("cbres", sig.Results().At(i).Type())
		fv.assumeType(st, v, sig.Results().At(i).Type())
		res = append(res, v)
		post.vars[fmt.Sprintf("res%d", i)] = TV{v, sig.Results().At(i).Type()}
	}
	for _, e := range cb.Ensures {
		post.assume(st, e)
	}
	return []Outcome{{st: st, results: res}}
}

// ---------------------------------------------------------------- defers

func (fv *FV) runDefers(fr *Frame, st *State) []Outcome {
	outs := []Outcome{{st: st}}
	for i := len(fr.defers) - 1; i >= 0; i-- {
		d := fr.defers[i]
		var next []Outcome
		for _, o := range outs {
			if o.panicked {
				next = append(next, o)
				continue
			}
			next = append(next, fv.callDeferred(fr, o.st, d)...)
		}
		outs = next
	}
	return outs
}

func (fv *FV) callDeferred(fr *Frame, st *State, d deferred) []Outcome {
	// synthesize a call instruction context
	fake := &ssa.Call{Call: *d.call}
	switch f := d.fn.(type) {
	case ClosureV:
		return fv.callStaticNoInstr(fr, st, f.Fn, d.args, f.Bindings, d.pos, fake)
	case FuncV:
		if f.Fn != nil {
			return fv.callStaticNoInstr(fr, st, f.Fn, d.args, nil, d.pos, fake)
		}
	}
	if d.call.IsInvoke() {
		args := append([]Value{d.fn}, d.args...)
		c := fv.ifaceContract(d.call)
		if c == nil {
			fv.fail("deferred interface call %s without contract", d.call.Method.Name())
		}
		sig := d.call.Method.Type().(*types.Signature)
		return fv.applyContract(fr, st, c, args, ifaceParamTypes(d.call.Value.Type(), sig), sig.Results(), fake, d.call.Method.Name())
	}
	fv.fail("unsupported deferred call in %s", fr.fn.Name())
	return nil
}

func (fv *FV) callStaticNoInstr(fr *Frame, st *State, fn *ssa.Function, args, bindings []Value, pos token.Pos, fake *ssa.Call) []Outcome {
	return fv.callStatic(fr, st, fn, args, bindings, fake)
}

// ---------------------------------------------------------------- loops

func (fv *FV) loopEnv(fr *Frame, st *State) *Env {
	env := &Env{fv: fv, pkg: fv.pkgPath, st: st, old: fv.entry, vars: map[string]TV{}, fr: fr}
	// parameters denote their current values inside loop invariants; name$0 is the entry value
	for k, v := range fv.lets {
		env.vars[k] = v
	}
	for k, v := range fv.entryEnv {
		env.vars[k+"$0"] = v
		if cur, ok := env.localVar(fv.paramSSAName(k)); ok {
			env.vars[k] = cur
		} else {
			env.vars[k] = v
		}
	}
	return env
}

// paramSSAName maps a contract parameter name to the source name of the parameter.
func (fv *FV) paramSSAName(contractName string) string {
	k := 0
	if fv.c.Recv != nil {
		if fv.c.Recv.Name == contractName && len(fv.fn.Params) > 0 {
			return fv.fn.Params[0].Name()
		}
		k = 1
	}
	for i, p := range fv.c.Params {
		if p.Name == contractName && i+k < len(fv.fn.Params) {
			return fv.fn.Params[i+k].Name()
		}
	}
	return contractName
}

func (fv *FV) loopEnter(fr *Frame, st *State, li *loopInfo) {
	stopHere := false
	for i, ca := range fv.c.Asserts {
		if ca.Loop != li.ordinal {
			continue
		}
		if ca.Stop {
			stopHere = true
			continue
		}
		aenv := fv.loopEnv(fr, st)
		g := aenv.evalBool(ca.Expr)
		fv.oblige(st, fmt.Sprintf("assert #%d (at loop %d)", i+1, li.ordinal), g, li.head.Instrs[0].Pos())
		fv.flushSide(st)
		st.assume(g)
	}
	if stopHere {
		fv.pathDone()
		panic(stopPath{})
	}
	lc := fv.c.Loops[li.ordinal]
	if lc == nil {
		fv.fail("loop %d of %s (block %d) has no invariant in the contract", li.ordinal, fv.name, li.head.Index)
	}
	env := fv.loopEnv(fr, st)
	for i, inv := range lc.Invariants {
		fv.oblige(st, fmt.Sprintf("loop %d / invariant-entry #%d", li.ordinal, i+1), env.evalBool(inv), li.head.Instrs[0].Pos())
	}
	// havoc local variables assigned in the loop
	seenAlloc := map[*ssa.Alloc]bool{}
	for b := range li.blocks {
		for _, in := range b.Instrs {
			if s, ok := in.(*ssa.Store); ok {
				if a, ok := s.Addr.(*ssa.Alloc); ok && !seenAlloc[a] {
					seenAlloc[a] = true
					t := a.Type().(*types.Pointer).Elem()
					if _, isCell := fr.cells[a]; isCell {
						v := fv.freshValue("loop_"+a.Comment, t)
						fv.assumeType(st, v, t)
						fr.cells[a] = v
					}
				}
			}
		}
	}
	locs := st.mods
	if lc.HasMod {
		locs = env.evalLocs(lc.Modifies)
		for _, m := range locs {
			fv.frameCheckLoc(st, m, li.head.Instrs[0], fmt.Sprintf("loop %d", li.ordinal), 1)
		}
	}
	// earlier iterations may have allocated: move the watermark before the havoc (see the call rule)
	{
		nwm0 := fv.fresh("wm", IntSort)
		st.assume(Ge(nwm0, st.wm))
		st.wm = nwm0
	}
	fv.havocFramed(st, locs, fmt.Sprintf("loop%d", li.ordinal))
	if lc.HasMod {
		// from here until the loop is left, only the loop's own frame may be written
		st.loopFrames = append(st.loopFrames, loopFrame{li: li, outer: st.mods, outerAny: st.modsAny})
		st.mods, st.modsAny = locs, false
	}
	nwm := fv.fresh("wm", IntSort)
	st.assume(Ge(nwm, st.wm))
	st.wm = nwm
	env = fv.loopEnv(fr, st)
	for _, inv := range lc.Invariants {
		env.assume(st, inv)
	}
	if lc.Decreases != nil {
		fr.variants[li.head] = env.promote(env.eval(lc.Decreases))
	}
}

// havocFramed replaces the whole heap by a fresh one that agrees with the old heap on every
// location that existed at function entry and is not listed in locs (frame axioms). Objects
// allocated since function entry may have been changed arbitrarily.
func (fv *FV) havocFramed(st *State, locs []modLoc, tag string) {
	wm0 := fv.entry.wm
	fv.nfresh++
	a := BoundVar(fmt.Sprintf("a!fr%d", fv.nfresh), RefSort)
	j := BoundVar(fmt.Sprintf("j!fr%d", fv.nfresh), fv.l.idxSort())
	par := func(x *Term) *Term { return mk("parentof", RefSort, x) }
	var cellMods, memMods []*Term
	for _, m := range locs {
		switch m.kind {
		case "cell", "gcell":
			// the cell itself, and its sub-cells: fields of a struct-typed cell, or the header components of a slice,
			// string or interface (stored at field numbers >= 100000); a pointer or basic cell has none
			sub := Eq(par(a), m.addr)
			if m.typ != nil {
				switch m.typ.Underlying().(type) {
				case *types.Struct, *types.Array:
				case *types.Slice, *types.Interface:
					sub = And(Ge(mk("efld", IntSort, a), IntLit(100000)), mk("isemb", BoolSort, a), sub)
				case *types.Basic:
					if m.typ.Underlying().(*types.Basic).Info()&types.IsString != 0 {
						sub = And(Ge(mk("efld", IntSort, a), IntLit(100000)), mk("isemb", BoolSort, a), sub)
					} else {
						sub = False
					}
				case *types.Pointer, *types.Map, *types.Chan, *types.Signature:
					sub = False
				}
			}
			if m.guard != nil {
				cellMods = append(cellMods, And(m.guard, Or(Eq(a, m.addr), sub)))
			} else {
				cellMods = append(cellMods, Eq(a, m.addr), sub)
			}
		case "fields":
			c := Or(Eq(par(a), m.addr), Eq(par(par(a)), m.addr), Eq(par(par(par(a))), m.addr))
			if m.guard != nil {
				c = And(m.guard, c)
			}
			cellMods = append(cellMods, c)
		case "mem":
			if m.guard != nil {
				memMods = append(memMods, And(m.guard, Eq(a, m.addr)))
			} else {
				memMods = append(memMods, Eq(a, m.addr))
			}
		case "map":
			cellMods = append(cellMods, Eq(a, m.addr))
		case "each":
			cellMods = append(cellMods, eachTarget(m, a))
		case "allexcept":
			c := Not(exceptTarget(m, a))
			if m.guard != nil {
				c = And(m.guard, c)
			}
			cellMods = append(cellMods, c)
			memMods = append(memMods, True)
		}
	}
	old := Lt(mk("rootid", IntSort, a), wm0)
	keys := fv.allKeys(st)
	for key := range keys {
		var cur *Term
		switch {
		case strings.HasPrefix(key, "H:"):
			cur = st.heap.cellArrByKey(key)
		case strings.HasPrefix(key, "M:"):
			parts := strings.SplitN(key[2:], "#", 2)
			k := 0
			fmt.Sscanf(parts[1], "%d", &k)
			_, cur = st.heap.elemArr(sortFromKey(parts[0]), k)
		default:
			cur = st.heap.arrays[key]
			if cur == nil {
				cur = st.heap.initial(key)
			}
			if cur == nil {
				continue
			}
		}
		nw := fv.fresh(tag+"_"+key, cur.Sort)
		isElemArr := strings.HasPrefix(key, "M:")
		var keep *Term
		if isElemArr {
			keep = And(old, Not(Or(memMods...)))
		} else if strings.HasPrefix(key, "H:") {
			keep = And(old, Not(Or(cellMods...)))
		} else {
			// maps: keyed by the map object
			var mm []*Term
			for _, m := range locs {
				if m.kind == "cell" && m.addr.Op == "emb" {
					mm = append(mm, Eq(a, m.addr.Args[0]))
				}
			}
			keep = And(old, Not(Or(mm...)))
		}
		q := Forall([]*Term{a}, Implies(keep, Eq(Select(nw, a), Select(cur, a))))
		if q.Op == "forall" {
			q.Pats = [][]*Term{{Select(nw, a)}}
		}
		st.assume(q)
		if isElemArr {
			for _, m := range locs {
				if m.kind != "mem" {
					continue
				}
				rowN, rowO := Select(nw, m.addr), Select(cur, m.addr)
				q2 := Forall([]*Term{j}, Implies(Not(And(fv.idxLe(m.lo, j), fv.idxLt(j, m.hi))), Eq(Select(rowN, j), Select(rowO, j))))
				if q2.Op == "forall" {
					q2.Pats = [][]*Term{{Select(rowN, j)}}
				}
				st.assume(Implies(Lt(RootID(m.addr), wm0), q2))
			}
		}
		st.heap.arrays[key] = nw
	}
	// every reference stored in the entry heap denotes an object that existed at entry
	if fv.l.mode == ModeInt && !fv.entryRefAxioms {
		fv.entryRefAxioms = true
		for key := range keys {
			if strings.HasPrefix(key, "H:Ref:") {
				h0 := (&Heap{arrays: map[string]*Term{}, l: fv.l}).cellArrByKey(key)
				q := Forall([]*Term{a}, Lt(mk("rootid", IntSort, Select(h0, a)), wm0))
				q.Pats = [][]*Term{{Select(h0, a)}}
				st.assume(q)
			}
		}
		m0 := Var("M_Ref_0_0", ArraySort(RefSort, ArraySort(IntSort, RefSort)))
		q2 := Forall([]*Term{a, j}, Lt(mk("rootid", IntSort, Select(Select(m0, a), j)), wm0))
		q2.Pats = [][]*Term{{Select(Select(m0, a), j)}}
		st.assume(q2)
	}
	// ghost state: only what the clause lists
	var gl []modLoc
	for _, m := range locs {
		if m.kind == "ghost" || m.kind == "ghostidx" {
			gl = append(gl, m)
		}
	}
	fv.havoc(st, gl, tag)
	for _, m := range locs {
		if m.kind != "allexcept" {
			continue
		}
		for name, g := range fv.P.Specs.GhostV {
			if m.exceptGhost[name] {
				continue
			}
			e := &Env{fv: fv, pkg: g.Pkg, st: st}
			s := e.ghostSort(g.Type)
			cur := fv.ghostCur(st, name, s)
			nv := fv.fresh(tag+"_"+name, s)
			if m.guard != nil {
				st.ghost[name] = Ite(m.guard, nv, cur)
			} else {
				st.ghost[name] = nv
			}
		}
	}
}

func sortFromKey(k string) *Sort {
	switch k {
	case "Int":
		return IntSort
	case "Bool":
		return BoolSort
	case "Ref":
		return RefSort
	}
	if strings.HasPrefix(k, "BV") {
		w := 0
		fmt.Sscanf(k[2:], "%d", &w)
		return BVSort(w)
	}
	panic("sortFromKey " + k)
}

func (fv *FV) loopBack(fr *Frame, st *State, li *loopInfo) {
	lc := fv.c.Loops[li.ordinal]
	env := fv.loopEnv(fr, st)
	for i, inv := range lc.Invariants {
		fv.oblige(st, fmt.Sprintf("loop %d / invariant-preserved #%d", li.ordinal, i+1), env.evalBool(inv), li.head.Instrs[0].Pos())
	}
	if lc.Decreases != nil {
		old := fr.variants[li.head]
		now := env.promote(env.eval(lc.Decreases))
		var g *Term
		if fv.l.mode == ModeBV {
			g = And(BVCmp("bvslt", now, old), BVCmp("bvsle", BVLit(zeroBig, specBV), old))
		} else {
			g = And(Lt(now, old), Le(IntLit(0), old))
		}
		fv.oblige(st, fmt.Sprintf("loop %d / decreases", li.ordinal), g, li.head.Instrs[0].Pos())
	}
	fv.pathDone()
}

// ---------------------------------------------------------------- builtins and intrinsics

func (fv *FV) builtin(fr *Frame, st *State, b *ssa.Builtin, args []Value, argTypes []types.Type, x *ssa.Call) Value {
	switch b.Name() {
	case "len":
		switch v := args[0].(type) {
		case SliceV:
			return Scalar{v.Len}
		case ArrayV:
			return Scalar{fv.idx(v.Len)}
		case Scalar:
			switch t := argTypes[0].Underlying().(type) {
			case *types.Pointer:
				return Scalar{fv.idx(t.Elem().Underlying().(*types.Array).Len())}
			case *types.Map:
				return Scalar{fv.mapLen(st, v.T)}
			case *types.Chan:
				r := fv.fresh("chanlen", fv.l.idxSort())
				st.assume(Ge(r, IntLit(0)))
				return Scalar{r}
			}
		}
	case "cap":
		switch v := args[0].(type) {
		case SliceV:
			return Scalar{v.Cap}
		case ArrayV:
			return Scalar{fv.idx(v.Len)}
		case Scalar:
			if t, ok := argTypes[0].Underlying().(*types.Pointer); ok {
				return Scalar{fv.idx(t.Elem().Underlying().(*types.Array).Len())}
			}
		}
	case "copy":
		dst := args[0].(SliceV)
		src := args[1].(SliceV)
		var et types.Type = types.Typ[types.Uint8]
		if s, ok := argTypes[0].Underlying().(*types.Slice); ok {
			et = s.Elem()
		}
		return Scalar{fv.copySlices(st, dst, src, et, x)}
	case "append":
		s := args[0].(SliceV)
		et := argTypes[0].Underlying().(*types.Slice).Elem()
		t, ok := args[1].(SliceV)
		if !ok {
			fv.fail("append with non-slice argument")
		}
		return fv.appendSlices(st, s, t, et, x)
	case "min", "max":
		a, c := args[0].(Scalar).T, args[1].(Scalar).T
		var le *Term
		if fv.l.mode == ModeBV {
			if isUnsigned(argTypes[0]) {
				le = BVCmp("bvule", a, c)
			} else {
				le = BVCmp("bvsle", a, c)
			}
		} else {
			le = Le(a, c)
		}
		if b.Name() == "min" {
			return Scalar{Ite(le, a, c)}
		}
		return Scalar{Ite(le, c, a)}
	case "delete":
		fv.mapDelete(st, args[0].(Scalar).T, args[1], argTypes[0], x)
		return nil
	case "print", "println":
		return nil
	case "recover":
		return IfaceV{Ref: NilRef, Typ: IntLit(0)}
	case "ssa:wrapnilchk":
		fv.nilCheck(st, args[0].(Scalar).T, x, x.Pos())
		return args[0]
	case "ssa:deferstack":
		return Scalar{NilRef}
	case "Slice": // unsafe.Slice(ptr, n)
		p := args[0].(Scalar).T
		n := fv.toIdx(args[1].(Scalar).T, argTypes[1])
		g := fv.idxLe(fv.idx(0), n)
		// the pointer must address at least n elements: expressed through the ghost extent of the pointer
		ext := App("ptr_extent", fv.l.idxSort(), p)
		g = And(g, Or(fv.idxLe(n, ext), And(Eq(p, NilRef), Eq(n, fv.idx(0)))))
		fv.oblige(st, fmt.Sprintf("unsafe-slice-in-bounds #%d", fv.ordinal("unsafe-slice", x)), g, x.Pos())
		st.assume(g)
		arr, off := fv.ptrElem(p)
		return SliceV{Arr: arr, Off: off, Len: n, Cap: n}
	case "SliceData":
		s := args[0].(SliceV)
		p := Ite(Eq(s.Arr, NilRef), NilRef, ElemRef(s.Arr, s.Off))
		st.assume(Implies(Neq(s.Arr, NilRef), Eq(App("ptr_extent", fv.l.idxSort(), p), s.Cap)))
		return Scalar{p}
	case "StringData":
		s := args[0].(SliceV)
		p := ElemRef(s.Arr, s.Off)
		st.assume(Eq(App("ptr_extent", fv.l.idxSort(), p), s.Len))
		return Scalar{p}
	case "String":
		p := args[0].(Scalar).T
		n := fv.toIdx(args[1].(Scalar).T, argTypes[1])
		arr, off := fv.ptrElem(p)
		return SliceV{Arr: arr, Off: off, Len: n, Cap: n}
	}
	fv.fail("unsupported builtin %s in %s", b.Name(), fr.fn.Name())
	return nil
}

func (fv *FV) ptrElem(p *Term) (arr, off *Term) {
	if p.Op == "elem" {
		return p.Args[0], p.Args[1]
	}
	// unsafe.SliceData of a possibly nil slice: (ite (= a nil) nil (elem a o)); the nil case has array nil as well
	if p.Op == "ite" && p.Args[1] == NilRef && p.Args[2].Op == "elem" && p.Args[0].Op == "=" {
		e := p.Args[2]
		c := p.Args[0]
		if (c.Args[0] == e.Args[0] && c.Args[1] == NilRef) || (c.Args[1] == e.Args[0] && c.Args[0] == NilRef) {
			return e.Args[0], e.Args[1]
		}
	}
	return mk("lparent", RefSort, p), mk("lidx", fv.l.idxSort(), p)
}

// copySlices models the builtin copy (memmove semantics) and returns the count.
func (fv *FV) copySlices(st *State, dst, src SliceV, et types.Type, x ssa.Instruction) *Term {
	var n *Term
	if fv.l.mode == ModeBV {
		n = Ite(BVCmp("bvsle", dst.Len, src.Len), dst.Len, src.Len)
	} else {
		n = Ite(Le(dst.Len, src.Len), dst.Len, src.Len)
	}
	if n.Op == "int" && n.Int.Sign() == 0 {
		return n
	}
	cs := fv.l.comps(et)
	if cs == nil {
		fv.fail("copy of composite elements unsupported")
	}
	fv.frameCheckCond(st, Gt0(fv, n), dst.Arr, true, dst.Off, Add(dst.Off, n), x, x.Pos())
	fv.nfresh++
	j := BoundVar(fmt.Sprintf("j!cp%d", fv.nfresh), fv.l.idxSort())
	for k, c := range cs {
		oldDst := st.heap.elemRow(c.sort, k, dst.Arr)
		srcRow := st.heap.elemRow(c.sort, k, src.Arr)
		newRow := fv.fresh("copyrow", ArraySort(fv.l.idxSort(), c.sort))
		inRange := And(fv.idxLe(dst.Off, j), fv.idxLt(j, Add(dst.Off, n)))
		body := Eq(Select(newRow, j), Ite(inRange, Select(srcRow, Add(src.Off, Sub(j, dst.Off))), Select(oldDst, j)))
		q := Forall([]*Term{j}, body)
		if q.Op == "forall" {
			q.Pats = [][]*Term{{Select(newRow, j)}}
		}
		st.assume(q)
		st.heap.setElemRow(c.sort, k, dst.Arr, newRow)
	}
	return n
}

func Gt0(fv *FV, n *Term) *Term {
	if fv.l.mode == ModeBV {
		return BVCmp("bvslt", BVLit(zeroBig, n.Sort.Width), n)
	}
	return Gt(n, IntLit(0))
}

func (fv *FV) frameCheckCond(st *State, cond, addr *Term, isElem bool, lo, hi *Term, in ssa.Instruction, pos token.Pos) {
	if st.modsAny || cond.IsFalse() {
		return
	}
	st2 := st
	if !cond.IsTrue() {
		st2 = st.clone()
		st2.assume(cond)
	}
	fv.frameCheck(st2, addr, isElem, lo, hi, in, pos)
}

func (fv *FV) appendSlices(st *State, s, t SliceV, et types.Type, x ssa.Instruction) Value {
	n := t.Len
	if n.Op == "int" && n.Int.Sign() == 0 {
		return s
	}
	cs := fv.l.comps(et)
	if cs == nil {
		fv.fail("append of composite elements unsupported")
	}
	if fv.l.mode == ModeBV {
		fv.fail("append in bv mode unsupported")
	}
	newLen := Add(s.Len, n)
	fits := Le(newLen, s.Cap)
	empty := Eq(n, IntLit(0))
	inPlace := And(fits, Not(empty))
	keep := Or(fits, empty)
	newArr := Obj(st.wm)
	st.wm = Add(st.wm, IntLit(1))
	newCap := fv.fresh("appendcap", IntSort)
	st.assume(And(Ge(newCap, newLen), Le(newCap, IntLit(maxSliceCap))))
	fv.oblige(st, fmt.Sprintf("append-size #%d", fv.ordinal("append", x)), Le(newLen, IntLit(maxSliceCap)), x.Pos())
	fv.frameCheckCond(st, inPlace, s.Arr, true, Add(s.Off, s.Len), Add(Add(s.Off, s.Len), n), x, x.Pos())
	fv.nfresh++
	j := BoundVar(fmt.Sprintf("j!ap%d", fv.nfresh), IntSort)
	for k, c := range cs {
		srow := st.heap.elemRow(c.sort, k, s.Arr)
		trow := st.heap.elemRow(c.sort, k, t.Arr)
		// in-place row
		rowIP := fv.fresh("approw", ArraySort(IntSort, c.sort))
		lo := Add(s.Off, s.Len)
		q1 := Forall([]*Term{j}, Eq(Select(rowIP, j), Ite(And(Le(lo, j), Lt(j, Add(lo, n))), Select(trow, Add(t.Off, Sub(j, lo))), Select(srow, j))))
		if q1.Op == "forall" {
			q1.Pats = [][]*Term{{Select(rowIP, j)}}
		}
		st.assume(q1)
		// new-array row
		rowNew := fv.fresh("appnew", ArraySort(IntSort, c.sort))
		q2 := Forall([]*Term{j}, Implies(And(Le(IntLit(0), j), Lt(j, newLen)),
			Eq(Select(rowNew, j), Ite(Lt(j, s.Len), Select(srow, Add(s.Off, j)), Select(trow, Add(t.Off, Sub(j, s.Len)))))))
		if q2.Op == "forall" {
			q2.Pats = [][]*Term{{Select(rowNew, j)}}
		}
		st.assume(q2)
		key, M := st.heap.elemArr(c.sort, k)
		M2 := Store(M, s.Arr, Ite(inPlace, rowIP, srow))
		M2 = Store(M2, newArr, rowNew)
		st.heap.arrays[key] = M2
	}
	return SliceV{Arr: Ite(keep, s.Arr, newArr), Off: Ite(keep, s.Off, IntLit(0)), Len: newLen, Cap: Ite(keep, s.Cap, newCap)}
}

func (fv *FV) intrinsic(st *State, full string, fn *ssa.Function, args []Value, x ssa.Instruction) (Value, bool) {
	switch full {
	case "math/bits.Len", "math/bits.Len64", "math/bits.Len32", "math/bits.Len16", "math/bits.Len8":
		v := args[0].(Scalar).T
		if fv.l.mode == ModeBV {
			w := v.Sort.Width
			r := bvBitLen(v, w)
			if w < 64 {
				r = BVZeroExt(64-w, r)
			}
			return Scalar{r}, true
		}
		r := App("bitlen", IntSort, v)
		w := int64(basicWidth(fn.Params[0].Type().Underlying().(*types.Basic)))
		st.assume(And(Le(IntLit(0), r), Le(r, IntLit(w))))
		st.assume(Implies(Eq(v, IntLit(0)), Eq(r, IntLit(0))))
		st.assume(Implies(Gt(v, IntLit(0)), And(Ge(r, IntLit(1)), Le(fv.pow2(Sub(r, IntLit(1))), v), Lt(v, fv.pow2(r)))))
		return Scalar{r}, true
	}
	return nil, false
}

// ---------------------------------------------------------------- maps (array + domain + length ghost)

func (fv *FV) mapKeys(t types.Type) (*types.Map, *Sort) {
	mt := t.Underlying().(*types.Map)
	cs := fv.l.comps(mt.Key())
	if len(cs) != 1 {
		fv.fail("map with composite key %s unsupported", mt.Key())
	}
	return mt, cs[0].sort
}

func (fv *FV) mapArr(st *State, mt *types.Map, ks *Sort, comp int, vs *Sort) (string, *Term) {
	key := fmt.Sprintf("MAP:%s#%d", typeKey(mt), comp)
	touchedKeys[key] = true
	if a, ok := st.heap.arrays[key]; ok {
		return key, a
	}
	v := Var(sanitize(fmt.Sprintf("MAP_%s_%d_0", typeKey(mt), comp)), ArraySort(RefSort, ArraySort(ks, vs)))
	keyInit[key] = v
	return key, v
}

func (fv *FV) mapDom(st *State, mt *types.Map, ks *Sort) (string, *Term) {
	key := fmt.Sprintf("MAPDOM:%s", typeKey(mt))
	touchedKeys[key] = true
	if a, ok := st.heap.arrays[key]; ok {
		return key, a
	}
	v := Var(sanitize(fmt.Sprintf("MAPDOM_%s_0", typeKey(mt))), ArraySort(RefSort, ArraySort(ks, BoolSort)))
	keyInit[key] = v
	return key, v
}

func (fv *FV) mapLenArr(st *State) (string, *Term) {
	key := "MAPLEN"
	touchedKeys[key] = true
	if a, ok := st.heap.arrays[key]; ok {
		return key, a
	}
	return key, Var("MAPLEN_0", ArraySort(RefSort, IntSort))
}

func (fv *FV) mapLen(st *State, m *Term) *Term {
	_, a := fv.mapLenArr(st)
	n := Select(a, m)
	st.assume(Ge(n, IntLit(0)))
	return n
}

func (fv *FV) mapInit(st *State, t types.Type, ref *Term) {
	mt, ks := fv.mapKeys(t)
	dk, dom := fv.mapDom(st, mt, ks)
	st.heap.arrays[dk] = Store(dom, ref, constArray(ArraySort(ks, BoolSort), False))
	lk, la := fv.mapLenArr(st)
	st.heap.arrays[lk] = Store(la, ref, IntLit(0))
}

func (fv *FV) mapUpdate(fr *Frame, st *State, x *ssa.MapUpdate) {
	m := fv.val(fr, x.Map).(Scalar).T
	mt, ks := fv.mapKeys(x.Map.Type())
	k := fv.val(fr, x.Key).(Scalar).T
	fv.oblige(st, fmt.Sprintf("map-nil-write #%d", fv.ordinal("map-nil-write", x)), Neq(m, NilRef), x.Pos())
	fv.frameCheck(st, Emb(m, -2), false, nil, nil, x, x.Pos())
	v := fv.val(fr, x.Value)
	vcs := fv.l.comps(mt.Elem())
	if vcs == nil {
		fv.fail("map with composite values unsupported: %s", mt.Elem())
	}
	ts := fv.l.toComps(mt.Elem(), v)
	for i, c := range vcs {
		key, a := fv.mapArr(st, mt, ks, i, c.sort)
		st.heap.arrays[key] = Store(a, m, Store(Select(a, m), k, ts[i]))
	}
	dk, dom := fv.mapDom(st, mt, ks)
	was := Select(Select(dom, m), k)
	st.heap.arrays[dk] = Store(dom, m, Store(Select(dom, m), k, True))
	lk, la := fv.mapLenArr(st)
	st.heap.arrays[lk] = Store(la, m, Ite(was, Select(la, m), Add(Select(la, m), IntLit(1))))
}

func (fv *FV) lookup(fr *Frame, st *State, x *ssa.Lookup) Value {
	if _, ok := x.X.Type().Underlying().(*types.Map); !ok {
		// string index
		s := fv.val(fr, x.X).(SliceV)
		idx := fv.toIdx(fv.val(fr, x.Index).(Scalar).T, x.Index.Type())
		fv.boundsCheck(st, idx, s.Len, x, x.Pos())
		r := st.heap.loadElem(types.Typ[types.Uint8], s.Arr, Add(s.Off, idx))
		fv.assumeType(st, r, types.Typ[types.Uint8])
		return r
	}
	m := fv.val(fr, x.X).(Scalar).T
	mt, ks := fv.mapKeys(x.X.Type())
	k := fv.val(fr, x.Index).(Scalar).T
	vcs := fv.l.comps(mt.Elem())
	if vcs == nil {
		fv.fail("map with composite values unsupported: %s", mt.Elem())
	}
	_, dom := fv.mapDom(st, mt, ks)
	in := And(Neq(m, NilRef), Select(Select(dom, m), k))
	ts := make([]*Term, len(vcs))
	for i, c := range vcs {
		_, a := fv.mapArr(st, mt, ks, i, c.sort)
		ts[i] = Ite(in, Select(Select(a, m), k), fv.l.zeroOf(c.sort))
	}
	v := fv.l.fromComps(mt.Elem(), ts)
	if s, ok := v.(Scalar); ok && s.T.Sort == RefSort {
		st.assume(Lt(RootID(s.T), st.wm))
	}
	if x.CommaOk {
		return TupleV{v, Scalar{in}}
	}
	return v
}

func (fv *FV) mapDelete(st *State, m *Term, kv Value, mapT types.Type, x ssa.Instruction) {
	mt, ks := fv.mapKeys(mapT)
	k := kv.(Scalar).T
	fv.frameCheckCond(st, Neq(m, NilRef), Emb(m, -2), false, nil, nil, x, x.Pos())
	dk, dom := fv.mapDom(st, mt, ks)
	was := And(Neq(m, NilRef), Select(Select(dom, m), k))
	st.heap.arrays[dk] = Store(dom, m, Store(Select(dom, m), k, False))
	lk, la := fv.mapLenArr(st)
	st.assume(Implies(was, Ge(Select(la, m), IntLit(1)))) // a map holding a key has at least one entry
	st.heap.arrays[lk] = Store(la, m, Ite(was, Sub(Select(la, m), IntLit(1)), Select(la, m)))
}

func (fv *FV) chanSend(fr *Frame, st *State, x *ssa.Send) {
	ch := fv.val(fr, x.Chan).(Scalar).T
	cur, ok := st.ghost["$sends"]
	if !ok {
		cur = Var("G_sends_0", ArraySort(RefSort, IntSort))
	}
	st.ghost["$sends"] = Store(cur, ch, Add(Select(cur, ch), IntLit(1)))
	st.events = append(st.events, "send")
}

var _ = big.NewInt

type stopPath struct{}

func truncate(s string, n int) string {
	if len(s) > n {
		return s[:n] + "..."
	}
	return s
}

// appendCases models append by case distinction (nothing appended / fits in place / reallocation), one path each,
// so that the resulting slice and memory are ite-free on every path.
func (fv *FV) appendCases(st *State, s, t SliceV, et types.Type, x ssa.Instruction) []Outcome {
	n := t.Len
	if n.Op == "int" && n.Int.Sign() == 0 {
		return []Outcome{{st: st, results: []Value{s}}}
	}
	cs := fv.l.comps(et)
	if cs == nil {
		fv.fail("append of composite elements unsupported")
	}
	newLen := Add(s.Len, n)
	fits := Le(newLen, s.Cap)
	empty := Eq(n, IntLit(0))
	var outs []Outcome
	// case 1: nothing to append
	if !empty.IsFalse() {
		st1 := st.clone()
		st1.assume(empty)
		outs = append(outs, Outcome{st: st1, results: []Value{s}})
	}
	// case 2: in place
	{
		st2 := st.clone()
		st2.assume(Not(empty))
		st2.assume(fits)
		fv.frameCheck(st2, s.Arr, true, Add(s.Off, s.Len), Add(Add(s.Off, s.Len), n), x, x.Pos())
		fv.nfresh++
		j := BoundVar(fmt.Sprintf("j!ap%d", fv.nfresh), IntSort)
		lo := Add(s.Off, s.Len)
		for k, c := range cs {
			srow := st2.heap.elemRow(c.sort, k, s.Arr)
			trow := st2.heap.elemRow(c.sort, k, t.Arr)
			row := fv.fresh("approw", ArraySort(IntSort, c.sort))
			q := Forall([]*Term{j}, Eq(Select(row, j), Ite(And(Le(lo, j), Lt(j, Add(lo, n))), Select(trow, Add(t.Off, Sub(j, lo))), Select(srow, j))))
			if q.Op == "forall" {
				q.Pats = [][]*Term{{Select(row, j)}}
			}
			st2.assume(q)
			st2.heap.setElemRow(c.sort, k, s.Arr, row)
		}
		outs = append(outs, Outcome{st: st2, results: []Value{SliceV{Arr: s.Arr, Off: s.Off, Len: newLen, Cap: s.Cap}}})
	}
	// case 3: reallocation
	{
		st3 := st.clone()
		st3.assume(Not(empty))
		st3.assume(Not(fits))
		newArr := Obj(st3.wm)
		st3.wm = Add(st3.wm, IntLit(1))
		newCap := fv.fresh("appendcap", IntSort)
		st3.assume(And(Ge(newCap, newLen), Le(newCap, IntLit(maxSliceCap)))) // the allocation succeeded
		fv.nfresh++
		j := BoundVar(fmt.Sprintf("j!ap%d", fv.nfresh), IntSort)
		for k, c := range cs {
			srow := st3.heap.elemRow(c.sort, k, s.Arr)
			trow := st3.heap.elemRow(c.sort, k, t.Arr)
			row := fv.fresh("appnew", ArraySort(IntSort, c.sort))
			q := Forall([]*Term{j}, Implies(And(Le(IntLit(0), j), Lt(j, newLen)),
				Eq(Select(row, j), Ite(Lt(j, s.Len), Select(srow, Add(s.Off, j)), Select(trow, Add(t.Off, Sub(j, s.Len)))))))
			if q.Op == "forall" {
				q.Pats = [][]*Term{{Select(row, j)}}
			}
			st3.assume(q)
			st3.heap.setElemRow(c.sort, k, newArr, row)
		}
		outs = append(outs, Outcome{st: st3, results: []Value{SliceV{Arr: newArr, Off: IntLit(0), Len: newLen, Cap: newCap}}})
	}
	return outs
}

// allKeys: every heap array the function may touch (collected by a first symbolic pass) plus those of this state.
func (fv *FV) allKeys(st *State) map[string]bool {
	keys := map[string]bool{}
	for k := range st.heap.arrays {
		keys[k] = true
	}
	for k := range fv.touched {
		keys[k] = true
	}
	return keys
}

func (fv *FV) cellKeys(st *State) []string {
	var out []string
	for k := range fv.allKeys(st) {
		if strings.HasPrefix(k, "H:") {
			out = append(out, k)
		}
	}
	sort.Strings(out)
	return out
}
