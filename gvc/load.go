package main

// Loading /repo packages, building naive-form SSA, binding contracts to functions.

import (
	"crypto/sha256"
	"fmt"
	"go/token"
	"go/types"
	"os"
	"path/filepath"
	"sort"
	"strings"

	"golang.org/x/tools/go/packages"
	"golang.org/x/tools/go/ssa"
	"golang.org/x/tools/go/ssa/ssautil"
)

const repoModule = "github.com/panjf2000/gnet/v2"

type Program struct {
	Fset    *token.FileSet
	Pkgs    []*packages.Package
	Prog    *ssa.Program
	SSAPkgs map[string]*ssa.Package // by import path (all, incl. deps)
	Specs   *SpecSet
	Tags    string
	Sources map[string]string // file -> sha256
	RepoDir string
}

func LoadProgram(repoDir string, patterns []string, tags string, trustedDir string) (*Program, error) {
	cfg := &packages.Config{
		Mode:       packages.LoadAllSyntax,
		Dir:        repoDir,
		BuildFlags: []string{"-tags=" + tags},
		Env:        append(os.Environ(), "GOFLAGS=-mod=mod", "GOPROXY=off", "GOSUMDB=off", "GOTOOLCHAIN=local"),
	}
	pkgs, err := packages.Load(cfg, patterns...)
	if err != nil {
		return nil, err
	}
	var errs []string
	packages.Visit(pkgs, nil, func(p *packages.Package) {
		if strings.HasPrefix(p.PkgPath, repoModule) {
			for _, e := range p.Errors {
				errs = append(errs, e.Error())
			}
		}
	})
	if len(errs) > 0 {
		return nil, fmt.Errorf("package errors: %s", strings.Join(errs, "; "))
	}
	prog, _ := ssautil.AllPackages(pkgs, ssa.NaiveForm|ssa.InstantiateGenerics)
	prog.Build()
	P := &Program{Fset: prog.Fset, Pkgs: pkgs, Prog: prog, SSAPkgs: map[string]*ssa.Package{}, Specs: NewSpecSet(), Tags: tags, Sources: map[string]string{}, RepoDir: repoDir}
	for _, sp := range prog.AllPackages() {
		P.SSAPkgs[sp.Pkg.Path()] = sp
	}
	// contract files in the repository (comment-only, build tag verif)
	var loadErr error
	packages.Visit(pkgs, nil, func(p *packages.Package) {
		if !strings.HasPrefix(p.PkgPath, repoModule) {
			return
		}
		for _, f := range p.GoFiles {
			data, err := os.ReadFile(f)
			if err == nil {
				P.Sources[f] = fmt.Sprintf("%x", sha256.Sum256(data))
			}
			if strings.HasSuffix(f, "_verif.go") && strings.Contains(filepath.Base(f), "contracts") {
				if err := P.Specs.LoadSpecFile(f, p.PkgPath, false); err != nil && loadErr == nil {
					loadErr = err
				}
			}
		}
	})
	if loadErr != nil {
		return nil, loadErr
	}
	if trustedDir != "" {
		files, _ := filepath.Glob(filepath.Join(trustedDir, "*.spec"))
		sort.Strings(files)
		for _, f := range files {
			if err := P.Specs.LoadSpecFile(f, "", true); err != nil {
				return nil, err
			}
		}
	}
	return P, nil
}

// FindFunc resolves a contract key ("(*Buffer).Write", "New") in a package to its SSA function.
func (P *Program) FindFunc(pkgPath, key string) *ssa.Function {
	sp := P.SSAPkgs[pkgPath]
	if sp == nil {
		return nil
	}
	if strings.HasPrefix(key, "(") {
		cp := strings.Index(key, ")")
		recv := key[1:cp]
		name := key[cp+2:]
		ptr := strings.HasPrefix(recv, "*")
		recv = strings.TrimPrefix(recv, "*")
		obj := sp.Pkg.Scope().Lookup(recv)
		if obj == nil {
			return nil
		}
		var T types.Type = obj.Type()
		if ptr {
			T = types.NewPointer(T)
		}
		ms := P.Prog.MethodSets.MethodSet(T)
		for i := 0; i < ms.Len(); i++ {
			sel := ms.At(i)
			if sel.Obj().Name() == name {
				fn := P.Prog.MethodValue(sel)
				// MethodValue of a pointer receiver on a value-receiver method yields a wrapper; unwrap
				if fn != nil && fn.Synthetic != "" {
					if f, ok := sel.Obj().(*types.Func); ok {
						if real := P.Prog.FuncValue(f); real != nil {
							return real
						}
					}
				}
				return fn
			}
		}
		return nil
	}
	if f := sp.Func(key); f != nil {
		return f
	}
	// anonymous function ("Wake$1"): search the functions and methods of the package
	if strings.Contains(key, "$") {
		var found *ssa.Function
		var visit func(f *ssa.Function)
		visit = func(f *ssa.Function) {
			if f == nil || found != nil {
				return
			}
			for _, a := range f.AnonFuncs {
				if a.Name() == key {
					found = a
					return
				}
				visit(a)
			}
		}
		for _, m := range sp.Members {
			switch x := m.(type) {
			case *ssa.Function:
				visit(x)
			case *ssa.Type:
				for _, T := range []types.Type{x.Type(), types.NewPointer(x.Type())} {
					ms := P.Prog.MethodSets.MethodSet(T)
					for i := 0; i < ms.Len(); i++ {
						visit(P.Prog.MethodValue(ms.At(i)))
					}
				}
			}
		}
		return found
	}
	return nil
}

// FuncKey computes the contract lookup key of an SSA function.
func stripTypeArgs(name string) string {
	if k := strings.Index(name, "["); k >= 0 {
		return name[:k]
	}
	return name
}

func FuncKey(fn *ssa.Function) (pkgPath, key string) {
	pkgPath, key = funcKey0(fn)
	return pkgPath, key
}

func funcKey0(fn *ssa.Function) (pkgPath, key string) {
	if fn.Pkg != nil {
		pkgPath = fn.Pkg.Pkg.Path()
	} else if fn.Object() != nil && fn.Object().Pkg() != nil {
		pkgPath = fn.Object().Pkg().Path()
	}
	if fn.Signature.Recv() != nil {
		rt := fn.Signature.Recv().Type()
		ptr := false
		if p, ok := rt.(*types.Pointer); ok {
			ptr = true
			rt = p.Elem()
		}
		name := rt.String()
		if n, ok := rt.(*types.Named); ok {
			name = n.Obj().Name()
			if n.Obj().Pkg() != nil {
				pkgPath = n.Obj().Pkg().Path()
			}
		}
		if ptr {
			return pkgPath, "(*" + name + ")." + stripTypeArgs(fn.Name())
		}
		return pkgPath, "(" + name + ")." + stripTypeArgs(fn.Name())
	}
	return pkgPath, stripTypeArgs(fn.Name())
}

func (P *Program) pkgHasSpecs(pkg string) bool {
	for _, m := range P.Specs.Macros {
		if m.Pkg == pkg {
			return true
		}
	}
	return false
}

func (P *Program) ContractFor(fn *ssa.Function) *Contract {
	if fn == nil {
		return nil
	}
	pkgPath, key := FuncKey(fn)
	return P.Specs.Contracts[pkgPath+"::"+key]
}

func (P *Program) InRepo(fn *ssa.Function) bool {
	p, _ := FuncKey(fn)
	return strings.HasPrefix(p, repoModule)
}

// ResolveType parses a type expression in the context of a package.
func (P *Program) ResolveType(pkgPath, text string) (types.Type, error) {
	text = strings.TrimSpace(text)
	sp := P.SSAPkgs[pkgPath]
	switch {
	case text == "":
		return types.Typ[types.Int], nil
	case strings.HasPrefix(text, "*"):
		t, err := P.ResolveType(pkgPath, text[1:])
		if err != nil {
			return nil, err
		}
		return types.NewPointer(t), nil
	case strings.HasPrefix(text, "[]"):
		t, err := P.ResolveType(pkgPath, text[2:])
		if err != nil {
			return nil, err
		}
		return types.NewSlice(t), nil
	case strings.HasPrefix(text, "map["):
		depth := 0
		for i, c := range text {
			if c == '[' {
				depth++
			}
			if c == ']' {
				depth--
				if depth == 0 {
					k, err := P.ResolveType(pkgPath, text[4:i])
					if err != nil {
						return nil, err
					}
					v, err := P.ResolveType(pkgPath, text[i+1:])
					if err != nil {
						return nil, err
					}
					return types.NewMap(k, v), nil
				}
			}
		}
	case strings.HasPrefix(text, "..."):
		t, err := P.ResolveType(pkgPath, text[3:])
		if err != nil {
			return nil, err
		}
		return types.NewSlice(t), nil
	}
	if obj := types.Universe.Lookup(text); obj != nil {
		if tn, ok := obj.(*types.TypeName); ok {
			return tn.Type(), nil
		}
	}
	if k := strings.LastIndex(text, "."); k >= 0 {
		q, name := text[:k], text[k+1:]
		if m := P.Specs.Imports[pkgPath]; m != nil {
			if ip, ok := m[q]; ok {
				if p := P.SSAPkgs[ip]; p != nil {
					if obj := p.Pkg.Scope().Lookup(name); obj != nil {
						if tn, ok := obj.(*types.TypeName); ok {
							return tn.Type(), nil
						}
					}
				}
			}
		}
		for path, p := range P.SSAPkgs {
			if p.Pkg.Name() == q || path == q {
				if obj := p.Pkg.Scope().Lookup(name); obj != nil {
					if tn, ok := obj.(*types.TypeName); ok {
						return tn.Type(), nil
					}
				}
			}
		}
		return nil, fmt.Errorf("cannot resolve type %q", text)
	}
	if sp != nil {
		if obj := sp.Pkg.Scope().Lookup(text); obj != nil {
			if tn, ok := obj.(*types.TypeName); ok {
				return tn.Type(), nil
			}
		}
	}
	return nil, fmt.Errorf("cannot resolve type %q in %s", text, pkgPath)
}
