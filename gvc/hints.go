package main

// Instantiation hints: the goal's outermost universal quantifier is skolemised, and every
// single-variable universally quantified assumption is additionally instantiated at the skolem
// constants and at index terms occurring in the goal (instances of assumptions are consequences,
// so this is sound; the quantified assumptions themselves are kept).

import (
	"fmt"
	"os"
	"strings"
	"sync"
	"sync/atomic"
)

var skolemSeq int64

func withHints(assump []*Term, goal *Term) ([]*Term, *Term) {
	if goal == nil {
		return assump, goal
	}
	out := append([]*Term(nil), assump...)
	var skolems []*Term
	for {
		switch {
		case goal.Op == "=>" && (goal.Args[1].Op == "forall" || goal.Args[1].Op == "=>"):
			out = append(out, goal.Args[0])
			goal = goal.Args[1]
			continue
		case goal.Op == "forall":
			m := map[string]*Term{}
			for _, b := range goal.Bound {
				sk := Var(fmt.Sprintf("sk!%s!%d", b.Name, atomic.AddInt64(&skolemSeq, 1)), b.Sort)
				m[b.Name] = sk
				skolems = append(skolems, sk)
			}
			goal = Substitute(goal.Args[0], m)
			continue
		}
		break
	}
	if len(skolems) == 0 && goal.Op == "and" {
		// a conjunction of goals skolemised beforehand (skolemizeGoal): its skolem constants are the candidates
		skolems = skolemsOf(goal, 6)
	}
	// candidate instantiation terms: skolems, plus select indices in the goal that mention a skolem
	cands := append([]*Term(nil), skolems...)
	seen := map[*Term]bool{}
	for _, s := range skolems {
		seen[s] = true
	}
	if z := IntLit(0); !seen[z] {
		seen[z] = true
		cands = append(cands, z)
	}
	for _, s := range skolems {
		if s.Sort == IntSort {
			for _, d := range []int64{1, -1} {
				t := Add(s, IntLit(d))
				if !seen[t] {
					seen[t] = true
					cands = append(cands, t)
				}
			}
		}
	}
	var walk func(t *Term)
	visited := map[*Term]bool{}
	mentions := func(t *Term) bool {
		found := false
		var w func(x *Term)
		vis := map[*Term]bool{}
		w = func(x *Term) {
			if found || vis[x] {
				return
			}
			vis[x] = true
			if seen[x] && x.Op == "var" {
				for _, s := range skolems {
					if s == x {
						found = true
					}
				}
			}
			for _, a := range x.Args {
				w(a)
			}
		}
		w(t)
		return found
	}
	walk = func(t *Term) {
		if visited[t] || t.Op == "forall" || t.Op == "exists" {
			return
		}
		visited[t] = true
		if false && t.Op == "select" && t.Args[1].Sort.Kind != SRef && !seen[t.Args[1]] && mentions(t.Args[1]) && len(cands) < 10 {
			seen[t.Args[1]] = true
			cands = append(cands, t.Args[1])
		}
		for _, a := range t.Args {
			walk(a)
		}
	}
	walk(goal)
	// ground Ref-sorted select indices (heap addresses) of the goal
	var goalAddr []*Term
	{
		vis := map[*Term]bool{}
		var w func(t *Term)
		w = func(t *Term) {
			if vis[t] || t.Op == "forall" || t.Op == "exists" {
				return
			}
			vis[t] = true
			if t.Op == "select" && t.Args[1].Sort == RefSort && !t.Args[1].hasBound && len(goalAddr) < 24 {
				dup := false
				for _, g := range goalAddr {
					if g == t.Args[1] {
						dup = true
					}
				}
				if !dup {
					goalAddr = append(goalAddr, t.Args[1])
				}
			}
			for _, a := range t.Args {
				w(a)
			}
		}
		w(goal)
	}
	// all ground integer select indices of the goal
	var goalIdx []*Term
	{
		vis := map[*Term]bool{}
		var w func(t *Term)
		w = func(t *Term) {
			if vis[t] || t.Op == "forall" || t.Op == "exists" {
				return
			}
			vis[t] = true
			if t.Op == "select" && t.Args[1].Sort == IntSort && !t.Args[1].hasBound && len(goalIdx) < 6 {
				dup := false
				for _, g := range goalIdx {
					if g == t.Args[1] {
						dup = true
					}
				}
				if !dup {
					goalIdx = append(goalIdx, t.Args[1])
				}
			}
			for _, a := range t.Args {
				w(a)
			}
		}
		w(goal)
	}
	n := len(out)
	for i := 0; i < n; i++ {
		a := out[i]
		var guard *Term
		q := a
		if a.Op == "=>" && a.Args[1].Op == "forall" {
			guard, q = a.Args[0], a.Args[1]
		}
		if q.Op == "forall" && len(q.Bound) == 2 {
			b0, b1 := q.Bound[0], q.Bound[1]
			cnt := 0
			// bounds of the quantifier's own guard are instantiation candidates too (e.g. j <= size)
			local := append([]*Term(nil), cands...)
			for _, t := range guardBounds(q.Args[0]) {
				dup := false
				for _, c := range local {
					if c == t {
						dup = true
					}
				}
				if !dup && len(local) < 14 {
					local = append(local, t)
				}
			}
			isSk := func(t *Term) bool {
				for _, s := range skolems {
					if t == s || (len(t.Args) == 2 && (t.Args[0] == s || t.Args[1] == s)) {
						return true
					}
				}
				return false
			}
			for _, c0 := range local {
				if c0.Sort != b0.Sort {
					continue
				}
				for _, c1 := range local {
					if len(skolems) > 0 && !isSk(c0) && !isSk(c1) {
						continue
					}
					if len(skolems) == 2 && skolems[0].Sort == skolems[1].Sort && sameRole(skolems[0], b0) && sameRole(skolems[1], b1) {
						// positional: first variable from the first skolem, second from the second
						if derivedFrom(c0, skolems[1]) || derivedFrom(c1, skolems[0]) {
							continue
						}
					}
					if c1.Sort != b1.Sort || cnt >= 36 {
						continue
					}
					cnt++
					inst := Substitute(q.Args[0], map[string]*Term{b0.Name: c0, b1.Name: c1})
					if guard != nil {
						inst = Implies(guard, inst)
					}
					out = append(out, inst)
				}
			}
			continue
		}
		if q.Op != "forall" || len(q.Bound) != 1 {
			continue
		}
		b := q.Bound[0]
		insts := map[*Term]bool{}
		for _, c := range cands {
			if c.Sort == b.Sort {
				insts[c] = true
			}
		}
		if b.Sort == RefSort && usesDirectSelect(q.Args[0], b) {
			for _, g := range goalAddr {
				insts[g] = true
			}
		}
		for c := range insts {
			inst := instantiate1(q.Args[0], b, c)
			if guard != nil {
				inst = Implies(guard, inst)
			}
			out = append(out, inst)
		}
	}
	// array-aware matching (rounds): a select(A, v + rest) in a quantified assumption is matched against
	// ground selects on the same array (or on the row of the same object in another heap version) by v := g - rest
	seenSel := map[[2]int]bool{}
	work := collectSelects([]*Term{goal}, seenSel, 64)
	type qinfo struct {
		guard, q *Term
		pats     []selPat
		done     map[*Term]bool
	}
	var qs []*qinfo
	for i := 0; i < n; i++ {
		a := out[i]
		var guard *Term
		q := a
		if a.Op == "=>" && a.Args[1].Op == "forall" {
			guard, q = a.Args[0], a.Args[1]
		}
		if q.Op != "forall" || len(q.Bound) != 1 || q.Bound[0].Sort != IntSort {
			continue
		}
		qs = append(qs, &qinfo{guard, q, selectPatterns(q.Args[0], q.Bound[0]), map[*Term]bool{}})
	}
	total := 0
	for round := 0; round < 8 && len(work) > 0 && total < 700; round++ {
		var added []*Term
		for _, qi := range qs {
			b := qi.q.Bound[0]
			for _, p := range qi.pats {
				for _, g := range work {
					var v *Term
					if p.app != "" || g.app != "" {
						if p.app != g.app || p.argi >= len(g.args) {
							continue
						}
						v = Sub(g.args[p.argi], p.rest)
					} else {
						if p.ite != g.ite || !arraysMatch(p.arr, g.arr) {
							continue
						}
						v = Sub(g.idx, p.rest)
					}
					if qi.done[v] || total >= 700 {
						continue
					}
					qi.done[v] = true
					total++
					inst := instantiate1(qi.q.Args[0], b, v)
					if qi.guard != nil {
						inst = Implies(qi.guard, inst)
					}
					out = append(out, inst)
					added = append(added, inst)
				}
			}
		}
		if os.Getenv("GVC_HINTSTAT") != "" {
			fmt.Printf("  hints round %d: %d instances (total %d), %d quantifiers\n", round, len(added), total, len(qs))
		}
		work = collectSelects(added, seenSel, 200)
	}
	out = ematchSelectPatterns(out, n, goal)
	return out, goal
}

// ematchSelectPatterns: a quantified assumption with the single-term pattern select(A, v) (A ground: the frame axioms
// of havocs, heap and rows) is instantiated at every ground index at which A is read anywhere in the goal, in a ground
// assumption or in an instance -- E-matching on its pattern, iterated to a fixpoint (bounded).
func ematchSelectPatterns(out []*Term, n int, goal *Term) []*Term {
	type pq struct {
		guard, q *Term
		done     map[*Term]bool
	}
	byArr := map[*Term][]*pq{}
	for i := 0; i < n; i++ {
		a := out[i]
		var guard *Term
		q := a
		if a.Op == "=>" && a.Args[1].Op == "forall" {
			guard, q = a.Args[0], a.Args[1]
		}
		if q.Op != "forall" || len(q.Bound) != 1 || len(q.Pats) != 1 || len(q.Pats[0]) != 1 {
			continue
		}
		p := q.Pats[0][0]
		if p.Op != "select" || p.Args[1] != q.Bound[0] || p.Args[0].hasBound {
			continue
		}
		byArr[p.Args[0]] = append(byArr[p.Args[0]], &pq{guard, q, map[*Term]bool{}})
	}
	if len(byArr) == 0 {
		return out
	}
	vis := map[*Term]bool{}
	var found [][2]*Term
	var w func(t *Term)
	w = func(t *Term) {
		if vis[t] || t.Op == "forall" || t.Op == "exists" {
			return
		}
		vis[t] = true
		if t.Op == "select" && !t.hasBound {
			if _, ok := byArr[t.Args[0]]; ok {
				found = append(found, [2]*Term{t.Args[0], t.Args[1]})
			}
		}
		for _, a := range t.Args {
			w(a)
		}
	}
	w(goal)
	for _, t := range out {
		if !containsQuant(t) {
			w(t)
		}
	}
	total := 0
	for round := 0; round < 12 && len(found) > 0 && total < 4000; round++ {
		cur := found
		found = nil
		for _, f := range cur {
			for _, p := range byArr[f[0]] {
				if p.done[f[1]] || total >= 4000 {
					continue
				}
				p.done[f[1]] = true
				total++
				inst := instantiate1(p.q.Args[0], p.q.Bound[0], f[1])
				if p.guard != nil {
					inst = Implies(p.guard, inst)
				}
				out = append(out, inst)
				w(inst)
			}
		}
	}
	if os.Getenv("GVC_HINTSTAT") != "" {
		fmt.Printf("  ematch: %d pattern arrays, %d instances\n", len(byArr), total)
	}
	return out
}

type selPat struct {
	app  string // uninterpreted function application f(.., v + rest, ..): matched against ground applications of f
	argi int
	ite  bool // the index is (ite c (v + rest) e): matched against the then-branch of ground ite indices (ring positions)
	arr  *Term
	rest *Term
}

// selectPatterns finds, for every select in body whose index is v + rest (rest free of v), the array and rest.
func selectPatterns(body, v *Term) []selPat {
	var res []selPat
	seen := map[*Term]bool{}
	has := func(t *Term) bool { return t.hasBound && mentionsBound(t, v) }
	sawIte := false
	var lin func(t *Term) (*Term, bool)
	lin = func(t *Term) (*Term, bool) {
		if t == v {
			return IntLit(0), true
		}
		if t.Op == "ite" && has(t.Args[1]) {
			// ring positions: (ite (< x size) x (- x size)); match on the then-branch
			sawIte = true
			return lin(t.Args[1])
		}
		if len(t.Args) == 2 && (t.Op == "+" || t.Op == "-") {
			a, b := t.Args[0], t.Args[1]
			switch {
			case has(a) && !has(b):
				r, ok := lin(a)
				if !ok {
					return nil, false
				}
				if t.Op == "+" {
					return Add(r, b), true
				}
				return Sub(r, b), true
			case t.Op == "+" && has(b) && !has(a):
				r, ok := lin(b)
				if !ok {
					return nil, false
				}
				return Add(r, a), true
			}
		}
		return nil, false
	}
	var walk func(t *Term)
	walk = func(t *Term) {
		if seen[t] || !t.hasBound {
			return
		}
		seen[t] = true
		if t.Op == "select" && t.Args[1].Sort == IntSort && has(t.Args[1]) {
			sawIte = false
			if r, ok := lin(t.Args[1]); ok && !r.hasBound {
				res = append(res, selPat{ite: sawIte, arr: t.Args[0], rest: r})
			}
		}
		if t.Op == "app" {
			for i, a := range t.Args {
				if a.Sort == IntSort && has(a) {
					sawIte = false
					if r, ok := lin(a); ok && !r.hasBound && !sawIte {
						res = append(res, selPat{app: t.Name, argi: i, rest: r})
					}
				}
			}
		}
		for _, a := range t.Args {
			walk(a)
		}
	}
	walk(body)
	return res
}

// stripIte replaces (ite c a b) by a under + and - (the form ite-patterns are matched against).
func stripIte(t *Term) *Term {
	switch {
	case t.Op == "ite" && t.Sort == IntSort:
		return stripIte(t.Args[1])
	case len(t.Args) == 2 && t.Op == "+":
		a, b := stripIte(t.Args[0]), stripIte(t.Args[1])
		if a != t.Args[0] || b != t.Args[1] {
			return Add(a, b)
		}
	case len(t.Args) == 2 && t.Op == "-":
		a, b := stripIte(t.Args[0]), stripIte(t.Args[1])
		if a != t.Args[0] || b != t.Args[1] {
			return Sub(a, b)
		}
	}
	return t
}

func arraysMatch(parr, garr *Term) bool {
	if parr == garr || parr.hasBound {
		return true
	}
	// rows of the same object in different versions of the heap
	if parr.Op == "select" && garr.Op == "select" && parr.Args[1] == garr.Args[1] {
		return true
	}
	// a row read back through a chain of stores / ite versions: any stored row may be the one read
	for _, c := range rowCandidates(garr, 0) {
		if c == parr || (parr.Op == "select" && c.Op == "select" && parr.Args[1] == c.Args[1]) {
			return true
		}
		// rows of a ghost map keyed by an integer (descriptor): the key is usually the same value read in
		// two heap versions, i.e. two different terms
		if parr.Op == "select" && c.Op == "select" && parr.Args[1].Sort == IntSort && c.Args[1].Sort == IntSort && sameBaseArray(parr.Args[0], c.Args[0]) {
			return true
		}
	}
	for _, c := range rowCandidates(parr, 0) {
		if c == garr {
			return true
		}
	}
	return false
}

// sameBaseArray: both are versions (through store / ite) of the same initial array variable or havoc family.
func sameBaseArray(a, b *Term) bool {
	base := func(t *Term) string {
		for i := 0; i < 12; i++ {
			switch t.Op {
			case "store":
				t = t.Args[0]
				continue
			case "ite":
				t = t.Args[2]
				continue
			}
			break
		}
		n := t.Name
		// strip version suffixes: G_sdata_0, loop1_sdata!90, h_Write_sdata!87 all denote the ghost sdata
		if i := strings.LastIndex(n, "!"); i >= 0 {
			n = n[:i]
		}
		n = strings.TrimSuffix(n, "_0")
		if i := strings.LastIndex(n, "_"); i >= 0 {
			n = n[i+1:]
		}
		return n + ":" + t.Sort.String()
	}
	return base(a) == base(b)
}

func rowCandidates(row *Term, depth int) []*Term {
	if row.Op != "select" || depth > 6 {
		return nil
	}
	var out []*Term
	var walk func(a *Term, d int)
	walk = func(a *Term, d int) {
		if d > 6 {
			return
		}
		switch a.Op {
		case "store":
			out = append(out, a.Args[2])
			walk(a.Args[0], d+1)
		case "ite":
			walk(a.Args[1], d+1)
			walk(a.Args[2], d+1)
		default:
			out = append(out, Select(a, row.Args[1]))
		}
	}
	walk(row.Args[0], depth)
	return out
}

type groundSel struct {
	arr, idx *Term
	ite      bool
	app      string
	args     []*Term
}

// instantiate1 is Substitute(body, {b: v}) memoised per (body, v): the same instance is needed for every conjunct of an
// obligation and for obligations sharing a path prefix. The memo is emptied whenever the hash-consing table is swept.
var instMemo sync.Map

type instKey struct{ body, v *Term }

func instantiate1(body *Term, b *Term, v *Term) *Term {
	k := instKey{body, v}
	if r, ok := instMemo.Load(k); ok {
		return r.(*Term)
	}
	r := Substitute(body, map[string]*Term{b.Name: v})
	instMemo.Store(k, r)
	return r
}

// skolemizeGoal turns A => (forall x. B) into A => B[sk/x] with fresh constants (proving the latter proves the former).
func skolemizeGoal(g *Term) *Term {
	switch {
	case g.Op == "=>":
		b := skolemizeGoal(g.Args[1])
		if b == g.Args[1] {
			return g
		}
		return Implies(g.Args[0], b)
	case g.Op == "forall":
		m := map[string]*Term{}
		for _, b := range g.Bound {
			m[b.Name] = Var(fmt.Sprintf("sk!%s!%d", b.Name, atomic.AddInt64(&skolemSeq, 1)), b.Sort)
		}
		return skolemizeGoal(Substitute(g.Args[0], m))
	}
	return g
}

// skolemsOf lists the skolem constants occurring in t (at most limit).
func skolemsOf(t *Term, limit int) []*Term {
	var out []*Term
	vis := map[*Term]bool{}
	var w func(x *Term)
	w = func(x *Term) {
		if vis[x] || len(out) >= limit || !mentionsSkolem(x) {
			return
		}
		vis[x] = true
		if x.Op == "var" && strings.HasPrefix(x.Name, "sk!") {
			out = append(out, x)
			return
		}
		for _, a := range x.Args {
			w(a)
		}
	}
	w(t)
	return out
}

// mentionsSkolem: the term contains a skolem constant of the goal (memoised)
var skMemo sync.Map

func mentionsSkolem(t *Term) bool {
	if v, ok := skMemo.Load(t); ok {
		return v.(bool)
	}
	r := false
	if t.Op == "var" && strings.HasPrefix(t.Name, "sk!") {
		r = true
	} else {
		for _, a := range t.Args {
			if mentionsSkolem(a) {
				r = true
				break
			}
		}
	}
	skMemo.Store(t, r)
	return r
}

// collectSelects gathers ground Int-indexed selects and uninterpreted applications; those whose index depends on a
// skolem constant of the goal come first (they are the ones a quantified fact has to be instantiated at), and only
// the first limit are kept.
func collectSelects(ts []*Term, seen map[[2]int]bool, limit int) []groundSel {
	var first, rest []groundSel
	vis := map[*Term]bool{}
	add := func(g groundSel, key *Term) {
		if mentionsSkolem(key) {
			first = append(first, g)
		} else {
			rest = append(rest, g)
		}
	}
	var w func(t *Term)
	w = func(t *Term) {
		if vis[t] || t.Op == "forall" || t.Op == "exists" {
			return
		}
		vis[t] = true
		if len(first)+len(rest) < 4000 {
			if t.Op == "select" && t.Args[1].Sort == IntSort && !t.Args[1].hasBound && !t.Args[0].hasBound {
				k := [2]int{t.Args[0].id, t.Args[1].id}
				if !seen[k] {
					add(groundSel{arr: t.Args[0], idx: t.Args[1]}, t.Args[1])
					if ix := stripIte(t.Args[1]); ix != t.Args[1] {
						add(groundSel{arr: t.Args[0], idx: ix, ite: true}, t.Args[1])
					}
				}
			}
			if t.Op == "app" && !t.hasBound && len(t.Args) > 0 {
				k := [2]int{-t.id, 0}
				if !seen[k] {
					add(groundSel{app: t.Name, args: t.Args}, t)
				}
			}
		}
		for _, a := range t.Args {
			w(a)
		}
	}
	for _, t := range ts {
		w(t)
	}
	out := append(first, rest...)
	if len(out) > limit {
		out = out[:limit]
	}
	for _, g := range out {
		if g.app != "" {
			continue
		}
		seen[[2]int{g.arr.id, g.idx.id}] = true
	}
	return out
}

// linearRests finds, for every select in body whose index is v + rest (rest free of v), the term rest.
func linearRests(body, v *Term) []*Term {
	var res []*Term
	seen := map[*Term]bool{}
	has := func(t *Term) bool { return t.hasBound && mentionsBound(t, v) }
	var lin func(t *Term) (*Term, bool)
	lin = func(t *Term) (*Term, bool) {
		if t == v {
			return IntLit(0), true
		}
		if len(t.Args) == 2 && (t.Op == "+" || t.Op == "-") {
			a, b := t.Args[0], t.Args[1]
			switch {
			case has(a) && !has(b):
				r, ok := lin(a)
				if !ok {
					return nil, false
				}
				if t.Op == "+" {
					return Add(r, b), true
				}
				return Sub(r, b), true
			case t.Op == "+" && has(b) && !has(a):
				r, ok := lin(b)
				if !ok {
					return nil, false
				}
				return Add(r, a), true
			}
		}
		return nil, false
	}
	var walk func(t *Term)
	walk = func(t *Term) {
		if seen[t] || !t.hasBound {
			return
		}
		seen[t] = true
		if t.Op == "select" && t.Args[1].Sort == IntSort && has(t.Args[1]) {
			if r, ok := lin(t.Args[1]); ok {
				dup := false
				for _, x := range res {
					if x == r {
						dup = true
					}
				}
				if !dup && !r.hasBound {
					res = append(res, r)
				}
			}
		}
		for _, a := range t.Args {
			walk(a)
		}
	}
	walk(body)
	return res
}

func mentionsBound(t, v *Term) bool {
	if t == v {
		return true
	}
	if !t.hasBound {
		return false
	}
	for _, a := range t.Args {
		if mentionsBound(a, v) {
			return true
		}
	}
	return false
}

// guardBounds returns the bound-free terms that bound variables are compared with in the guard of
// an implication body (v < T, v <= T, T <= v ...).
func guardBounds(body *Term) []*Term {
	var res []*Term
	if body.Op != "=>" {
		return nil
	}
	var walk func(t *Term)
	walk = func(t *Term) {
		switch t.Op {
		case "and":
			for _, a := range t.Args {
				walk(a)
			}
		case "<", "<=":
			for k := 0; k < 2; k++ {
				if t.Args[k].Op == "bound" && !t.Args[1-k].hasBound && t.Args[1-k].Op != "int" {
					res = append(res, t.Args[1-k])
				}
			}
		}
	}
	walk(body.Args[0])
	return res
}

// usesDirectSelect reports whether body contains select(A, v) with the bound variable itself as index.
func usesDirectSelect(body, v *Term) bool {
	found := false
	seen := map[*Term]bool{}
	var walk func(t *Term)
	walk = func(t *Term) {
		if found || seen[t] || !t.hasBound {
			return
		}
		seen[t] = true
		if t.Op == "select" && t.Args[1] == v {
			found = true
			return
		}
		for _, a := range t.Args {
			walk(a)
		}
	}
	walk(body)
	return found
}

func derivedFrom(t, sk *Term) bool {
	return t == sk || (len(t.Args) == 2 && (t.Args[0] == sk || t.Args[1] == sk))
}

// sameRole: the skolem constant sk!<name>!q..!n stems from a bound variable with the same source name as b.
func sameRole(sk, b *Term) bool {
	base := func(n string) string {
		n = strings.TrimPrefix(n, "sk!")
		if k := strings.Index(n, "!"); k >= 0 {
			n = n[:k]
		}
		return n
	}
	return base(sk.Name) == base(b.Name)
}
