package main

// Property checks: configuration, closure, known findings, evidence, VIOLATION protocol.

import (
	"encoding/json"
	"flag"
	"fmt"
	"os"
	"path/filepath"
	"sort"
	"strconv"
	"strings"
	"sync"
	"sync/atomic"
	"time"
)

type Variant struct {
	Name     string   `json:"name"`
	Tags     string   `json:"tags"`
	Patterns []string `json:"patterns"`
	Quick    bool     `json:"quick"`
}

type BoundedCheck struct {
	Name  string `json:"name"`
	Cmd   string `json:"cmd"`
	Bound string `json:"bound"`
}

type PropConfig struct {
	ID          string         `json:"id"`
	Title       string         `json:"title"`
	Variants    []Variant      `json:"variants"`
	Functions   []string       `json:"functions"`
	Exclude     []string       `json:"exclude"`
	Assumptions []string       `json:"assumptions"`
	NotCovered  []string       `json:"not_covered"`
	Bounded     []BoundedCheck `json:"bounded"`
	MaxPaths    int            `json:"max_paths"`
}

type KnownFinding struct {
	Property   string `json:"property"`
	Obligation string `json:"obligation"`
	Region     string `json:"region"`
	What       string `json:"what"`
}

type KnownFile struct {
	Findings []KnownFinding `json:"findings"`
	Fixed    []string       `json:"fixed"`
}

type pendingFunc struct {
	r          *FuncResult
	groups     map[string][]*Obligation
	order      []string
	regionObls map[string][]*Obligation
}

type oblReport struct {
	Name     string `json:"name"`
	Subgoals int    `json:"subgoals"`
	Trivial  int    `json:"syntactic"`
	Solver   string `json:"solver"`
	Ms       int64  `json:"ms"`
	Status   string `json:"status"`
}

type funcReport struct {
	Name        string   `json:"name"`
	Contract    string   `json:"contract_at"`
	Mode        string   `json:"integer_semantics"`
	Obligations int      `json:"obligations"`
	Subgoals    int      `json:"subgoals"`
	Paths       int      `json:"paths"`
	Loops       int      `json:"loops_with_invariants"`
	Vacuity     string   `json:"requires_satisfiable"`
	Inlined     []string `json:"inlined_callees,omitempty"`
	Variant     string   `json:"variant"`
}

func loadPropConfig(verifDir, id string) (*PropConfig, error) {
	data, err := os.ReadFile(filepath.Join(verifDir, "props", id+".json"))
	if err != nil {
		return nil, err
	}
	var pc PropConfig
	if err := json.Unmarshal(data, &pc); err != nil {
		return nil, fmt.Errorf("props/%s.json: %v", id, err)
	}
	return &pc, nil
}

func matchFunc(patterns []string, pkgPath, key string) bool {
	short := strings.TrimPrefix(strings.TrimPrefix(pkgPath, repoModule), "/")
	if short == "" {
		short = "."
	}
	for _, p := range patterns {
		k := strings.Index(p, "::")
		if k < 0 {
			continue
		}
		pp, kk := p[:k], p[k+2:]
		if pp != short && pp != pkgPath {
			continue
		}
		if kk == "*" || kk == key {
			return true
		}
		if strings.HasSuffix(kk, "*") && strings.HasPrefix(key, strings.TrimSuffix(kk, "*")) {
			return true
		}
	}
	return false
}

func sanitizeFile(s string) string {
	var sb strings.Builder
	for _, c := range s {
		switch {
		case c >= 'a' && c <= 'z', c >= 'A' && c <= 'Z', c >= '0' && c <= '9', c == '-', c == '.':
			sb.WriteRune(c)
		case c == ' ' || c == '/':
			sb.WriteRune('_')
		case c == '#':
			sb.WriteString("n")
		}
	}
	return sb.String()
}

func cmdCheck(args []string) {
	fs := flag.NewFlagSet("check", flag.ExitOnError)
	repo := fs.String("repo", "/repo", "repository")
	verif := fs.String("verif", "/verif", "verification directory")
	tier := fs.String("tier", "quick", "quick|thorough")
	noEvidence := fs.Bool("no-evidence", false, "do not write evidence/replay files (self-test)")
	replayOut := fs.String("replay-dir", "", "override replay output directory")
	focus := fs.String("focus", "", "self-test only: verify just the functions whose name contains this (no closure)")
	fs.Parse(args)
	if fs.NArg() < 1 {
		fmt.Fprintln(os.Stderr, "usage: gvc check [flags] <property-id>")
		os.Exit(2)
	}
	id := fs.Arg(0)
	if t := os.Getenv("VERIF_TIER"); t == "quick" || t == "thorough" {
		if !flagSet(fs, "tier") {
			*tier = t
		}
	}
	seed := 0
	if s := os.Getenv("VERIF_SEED"); s != "" {
		seed, _ = strconv.Atoi(s)
	}
	t0 := time.Now()
	pc, err := loadPropConfig(*verif, id)
	if err != nil {
		fmt.Fprintln(os.Stderr, "config:", err)
		os.Exit(2)
	}
	var known KnownFile
	if data, err := os.ReadFile(filepath.Join(*verif, "known_findings.json")); err == nil {
		if err := json.Unmarshal(data, &known); err != nil {
			fmt.Fprintln(os.Stderr, "known_findings.json:", err)
			os.Exit(2)
		}
	}
	work, _ := os.MkdirTemp("", "gvc")
	defer os.RemoveAll(work)
	cfg := &SolverCfg{WorkDir: work, Quick: 3 * time.Second, Full: 30 * time.Second, Parallel: parallelism()}
	if *tier == "thorough" {
		cfg.Quick = 10 * time.Second
		cfg.AllAgree = true
		cfg.Full = 60 * time.Second
	}
	maxPaths := pc.MaxPaths
	if maxPaths == 0 {
		maxPaths = 20000
	}
	replayDir := filepath.Join(*verif, "replays", id)
	if *replayOut != "" {
		replayDir = *replayOut
	}

	type failure struct {
		name   string
		obls   []*Obligation
		fr     *FuncResult
		reason string
		P      *Program
	}
	var failures []failure
	var funcReports []funcReport
	var oblReports []oblReport
	var knownSeen []string
	var samples []interface{}
	trustedUsed := map[string]bool{}
	sources := map[string]string{}
	totalObl, totalDis, totalSub := 0, 0, 0
	otherProps := 0
	var solverMs int64
	var variantsRun []string
	solverCount := map[string]int{}

	for _, v := range pc.Variants {
		if *tier == "quick" && !v.Quick {
			continue
		}
		variantsRun = append(variantsRun, v.Name+" (-tags "+v.Tags+")")
		P, err := LoadProgram(*repo, v.Patterns, v.Tags, filepath.Join(*verif, "contracts", "trusted"))
		if err != nil {
			// the tree does not build or a contract file does not parse: the check cannot decide anything
			failures = append(failures, failure{name: id + " / load " + v.Name, reason: "load failure: " + err.Error()})
			continue
		}
		for f, h := range P.Sources {
			sources[strings.TrimPrefix(f, *repo+"/")] = h
		}
		// worklist: configured functions, closed under in-repository callee contracts
		done := map[string]bool{}
		var work []string
		for _, key := range P.Specs.Order {
			c := P.Specs.Contracts[key]
			if c.Trusted || c.IsIface {
				continue
			}
			if matchFunc(pc.Functions, c.Pkg, c.Key) && !matchFunc(pc.Exclude, c.Pkg, c.Key) {
				work = append(work, key)
			} else if *focus != "" && c.NoVerify == "" && P.SSAPkgs[c.Pkg] != nil && strings.Contains(displayName(c.Pkg, c.Key), *focus) {
				// self-test focus mode does not walk the closure: a focused function that is only reached through it is added directly
				work = append(work, key)
			}
		}
		if len(work) == 0 {
			failures = append(failures, failure{name: id + " / no functions under contract in variant " + v.Name, reason: "vacuous check: no function matched " + strings.Join(pc.Functions, ",")})
		}
		var pend []*pendingFunc
		var allObls []*Obligation
		for len(work) > 0 {
			key := work[0]
			work = work[1:]
			if done[key] {
				continue
			}
			done[key] = true
			c := P.Specs.Contracts[key]
			if *focus != "" && !strings.Contains(displayName(c.Pkg, c.Key), *focus) {
				continue
			}
			r := VerifyFunc(P, c, maxPaths)
			if r.Err != "" {
				failures = append(failures, failure{name: r.Name + " / verification-error", fr: r, reason: r.Err, P: P})
				continue
			}
			// clauses tagged with other properties ("ensures [C18] ...") are proved by those properties' checks
			{
				kept := r.Obls[:0]
				for _, o := range r.Obls {
					if len(o.Props) > 0 {
						mine := false
						for _, p := range o.Props {
							if p == id {
								mine = true
							}
						}
						if !mine {
							otherProps++
							continue
						}
					}
					kept = append(kept, o)
				}
				r.Obls = kept
			}
			for _, t := range r.Trusted {
				trustedUsed[t] = true
			}
			// closure
			for _, u := range r.Used {
				if uc := P.Specs.Contracts[u]; uc != nil && !uc.Trusted && !uc.IsIface && !done[u] {
					if P.SSAPkgs[uc.Pkg] != nil {
						work = append(work, u)
					}
				}
			}
			// known-finding regions
			groups := map[string][]*Obligation{}
			var order []string
			for _, o := range r.Obls {
				if _, ok := groups[o.Name]; !ok {
					order = append(order, o.Name)
				}
				groups[o.Name] = append(groups[o.Name], o)
			}
			regionObls := map[string][]*Obligation{}
			for _, kf := range known.Findings {
				if kf.Property != id {
					continue
				}
				obls, ok := groups[kf.Obligation]
				if !ok {
					continue
				}
				reg, rerr := r.evalEntry(kf.Region)
				if rerr != nil {
					failures = append(failures, failure{name: kf.Obligation + " / known-finding-region", fr: r, reason: rerr.Error(), P: P})
					continue
				}
				for _, o := range obls {
					if o.Trivial {
						continue
					}
					ro := *o
					ro.Assump = append(append([]*Term{}, o.Assump...), reg)
					ro.Name = o.Name + " [inside known-finding region]"
					regionObls[kf.Obligation+"\x00"+kf.What] = append(regionObls[kf.Obligation+"\x00"+kf.What], &ro)
					o.Assump = append(append([]*Term{}, o.Assump...), Not(reg))
				}
			}
			pend = append(pend, &pendingFunc{r: r, groups: groups, order: order, regionObls: regionObls})
			allObls = append(allObls, r.Obls...)
			for _, ros := range regionObls {
				allObls = append(allObls, ros...)
			}
		}
		// discharge everything of this variant in one pool; vacuity guards run alongside
		vacRes := make([]solverAnswer, len(pend))
		var vwg sync.WaitGroup
		for i, pf := range pend {
			if pf.r.Vacuity == nil {
				continue
			}
			vwg.Add(1)
			go func(i int, pf *pendingFunc) {
				defer vwg.Done()
				vacRes[i] = CheckSat(cfg, pf.r.Vacuity.Assump)
			}(i, pf)
		}
		Discharge(cfg, allObls)
		vwg.Wait()
		for pi, pf := range pend {
			r, groups, order, regionObls := pf.r, pf.groups, pf.order, pf.regionObls
			for k, ros := range regionObls {
				still := false
				for _, ro := range ros {
					if ro.Status != "discharged" {
						still = true
					}
				}
				if still {
					parts := strings.SplitN(k, "\x00", 2)
					knownSeen = append(knownSeen, fmt.Sprintf("property=%s %s: %s", id, parts[0], parts[1]))
				}
			}
			vac := "not-checked"
			if r.Vacuity != nil {
				a := vacRes[pi]
				vac = a.status
				if a.status == "unsat" {
					failures = append(failures, failure{name: r.Name + " / requires-satisfiable", fr: r, reason: "the precondition of " + r.Name + " is contradictory: every obligation would hold vacuously", P: P})
				}
			}
			mode := "mathematical integers with no-overflow obligations"
			if r.Mode == ModeBV {
				mode = "64-bit vectors (specification arithmetic at 128 bits)"
			}
			funcReports = append(funcReports, funcReport{Name: r.Name, Contract: strings.TrimPrefix(r.Pos, *repo+"/"), Mode: mode, Obligations: len(order), Subgoals: len(r.Obls), Paths: r.Paths, Loops: r.Loops, Vacuity: vac, Inlined: r.Inlined, Variant: v.Name})
			if len(r.Obls) == 0 {
				failures = append(failures, failure{name: r.Name + " / no-obligations", fr: r, reason: "vacuous: no obligation generated", P: P})
			}
			for _, name := range order {
				obls := groups[name]
				rep := oblReport{Name: name, Subgoals: len(obls), Status: "discharged"}
				var bad []*Obligation
				solvers := map[string]bool{}
				for _, o := range obls {
					totalSub++
					if o.Trivial {
						rep.Trivial++
					} else {
						solvers[o.Solver] = true
						solverCount[o.Solver]++
					}
					rep.Ms += o.Ms
					solverMs += o.Ms
					if o.Status != "discharged" {
						bad = append(bad, o)
					}
				}
				var ss []string
				for s := range solvers {
					ss = append(ss, s)
				}
				sort.Strings(ss)
				rep.Solver = strings.Join(ss, "+")
				if rep.Solver == "" {
					rep.Solver = "syntactic"
				}
				totalObl++
				if len(bad) == 0 {
					totalDis++
				} else {
					rep.Status = "FAILED"
					failures = append(failures, failure{name: name, obls: bad, fr: r, P: P})
				}
				oblReports = append(oblReports, rep)
				if len(samples) < 4 && rep.Trivial < len(obls) {
					for _, o := range obls {
						if !o.Trivial {
							q := Query(o.Assump, o.Goal, false)
							if len(q) < 6000 {
								samples = append(samples, map[string]string{"obligation": name, "at": o.Pos, "smt2": q})
								break
							}
						}
					}
				}
			}
		}
	}
	if len(samples) == 0 {
		for _, o := range oblReports {
			samples = append(samples, o.Name)
			if len(samples) >= 5 {
				break
			}
		}
	}

	// bounded stand-ins (labelled, never counted as proved)
	var boundedReports []map[string]interface{}
	for _, b := range pc.Bounded {
		rep, ok := runBounded(b, *repo, *verif, *tier)
		boundedReports = append(boundedReports, rep)
		if !ok {
			failures = append(failures, failure{name: "bounded: " + b.Name, reason: fmt.Sprint(rep["output"])})
		}
	}

	for _, k := range knownSeen {
		fmt.Printf("KNOWN-FINDING: %s\n", k)
	}
	violations := 0
	if len(failures) > 0 && !*noEvidence {
		os.MkdirAll(replayDir, 0o755)
	}
	for _, f := range failures {
		violations++
		rp := filepath.Join(replayDir, sanitizeFile(f.name)+".json")
		rec := map[string]interface{}{"property": id, "obligation": f.name, "tier": *tier}
		reproduced := false
		if f.reason != "" {
			rec["reason"] = f.reason
		}
		var subs []map[string]interface{}
		for _, o := range f.obls {
			sub := map[string]interface{}{"path": o.Path, "at": o.Pos, "status": o.Status, "solver": o.Solver, "solver_output": firstLines(o.Output, 40)}
			if o.Model != "" {
				sub["model"] = trimModelFull(o.Model)
				if f.fr != nil && f.P != nil {
					rr := tryReplay(f.P, f.fr, o, cfg, *repo)
					sub["replay"] = rr
					if rr != nil && rr["reproduced"] == true {
						reproduced = true
					}
				}
			}
			subs = append(subs, sub)
		}
		rec["subgoals"] = subs
		rec["failing_input_reproduced_on_real_code"] = reproduced
		if !*noEvidence || *replayOut != "" {
			os.MkdirAll(replayDir, 0o755)
			data, _ := json.MarshalIndent(rec, "", " ")
			os.WriteFile(rp, data, 0o644)
		}
		suffix := ""
		if !reproduced {
			suffix = " no-failing-input-found"
		}
		fmt.Printf("VIOLATION property=%s replay=%s%s\n", id, rp, suffix)
		fmt.Printf("  failed obligation: %s\n", f.name)
		if f.reason != "" {
			fmt.Printf("  reason: %s\n", firstLines(f.reason, 6))
		}
		for _, o := range f.obls {
			fmt.Printf("  sub-goal path %d at %s: %s (%s)\n", o.Path, o.Pos, o.Status, o.Solver)
		}
	}

	var tb []string
	for t := range trustedUsed {
		tb = append(tb, "assumed contract: "+t)
	}
	sort.Strings(tb)
	tb = append(tb, "gvc verification-condition generator (go/ssa naive form, /verif/gvc)", "SMT solvers z3 5.1.0, z3 4.8.12, cvc5 1.0.3", "golang.org/x/tools/go/ssa v0.29.0 SSA construction")
	var assumptions []string
	assumptions = append(assumptions, pc.Assumptions...)
	assumptions = append(assumptions,
		"64-bit int (linux/amd64); slice capacity and offsets <= 2^48; allocation succeeds",
		"Go memory safety outside unsafe; unsafe.Slice/SliceData modelled with an in-bounds obligation",
		"package-level error variables are immutable, non-nil and pairwise distinct sentinels",
		"termination only where a decreases clause is given (partial correctness otherwise)")
	for _, n := range pc.NotCovered {
		assumptions = append(assumptions, "not covered: "+n)
	}
	var srcList []string
	for f := range sources {
		srcList = append(srcList, f)
	}
	sort.Strings(srcList)
	srcMap := map[string]string{}
	for _, f := range srcList {
		srcMap[f] = sources[f]
	}
	ev := map[string]interface{}{
		"property_id": id,
		"tier":        *tier,
		"seed":        seed,
		"level":       "proof",
		"coverage": map[string]interface{}{
			"obligations":                          totalObl,
			"discharged":                           totalDis,
			"subgoals":                             totalSub,
			"checker_cmd":                          fmt.Sprintf("/verif/bin/gvc check -tier %s %s  (per sub-goal: z3-new -smt2 | z3 -smt2 | cvc5 --lang smt2, first definitive answer)", *tier, id),
			"trusted_base":                         tb,
			"functions_under_contract":             funcReports,
			"obligation_list":                      oblReports,
			"solver_time_s":                        float64(solverMs) / 1000.0,
			"subgoals_by_back_end":                 solverCount,
			"obligations_left_to_other_properties": otherProps,
			"cross_check":                          map[string]interface{}{"enabled": cfg.AllAgree, "second_opinions_asked": atomic.LoadInt64(&crossAsked), "confirmed_unsat": atomic.LoadInt64(&crossConfirmed), "note": "thorough tier: every ground query that z3 5.1 answers unsat is also given to cvc5 and z3 4.8.12 (10 s each); a sat answer fails the obligation, timeouts are tolerated"},
			"build_variants":                       variantsRun,
			"source_sha256":                        srcMap,
			"bounded":                              boundedReports,
			"known_findings_seen":                  knownSeen,
			"samples":                              samples,
			"explanation":                          "Every function listed under functions_under_contract is symbolically executed (go/ssa naive form of the current /repo working tree) against its //@ contract; callees are replaced by their contracts; each obligation (ensures, frame, loop invariant, call precondition, bounds, nil, overflow, panic) is one or more SMT sub-goals, discharged iff the solver answers unsat. 'bounded' entries are not counted as obligations.",
		},
		"assumptions": assumptions,
		"wall_s":      time.Since(t0).Seconds(),
		"violations":  violations,
	}
	if !*noEvidence {
		os.MkdirAll(filepath.Join(*verif, "evidence"), 0o755)
		data, _ := json.MarshalIndent(ev, "", " ")
		os.WriteFile(filepath.Join(*verif, "evidence", id+".json"), data, 0o644)
	}
	fmt.Printf("%s %s: %d functions, %d obligations (%d sub-goals), %d discharged, %d violations, %.1fs\n", id, *tier, len(funcReports), totalObl, totalSub, totalDis, violations, time.Since(t0).Seconds())
	if violations > 0 {
		os.RemoveAll(work) // deferred calls do not run on os.Exit
		os.Exit(1)
	}
}

func flagSet(fs *flag.FlagSet, name string) bool {
	found := false
	fs.Visit(func(f *flag.Flag) {
		if f.Name == name {
			found = true
		}
	})
	return found
}

func trimModelFull(m string) string {
	if len(m) > 20000 {
		return m[:20000] + "\n...(truncated)"
	}
	return m
}
