// ssadump prints the naive-form SSA of selected functions (development aid for writing contracts).
package main

import (
	"fmt"
	"os"
	"strings"

	"golang.org/x/tools/go/packages"
	"golang.org/x/tools/go/ssa"
	"golang.org/x/tools/go/ssa/ssautil"
)

func main() {
	tags := "verif"
	if t := os.Getenv("TAGS"); t != "" {
		tags = t
	}
	cfg := &packages.Config{Mode: packages.LoadAllSyntax, Dir: "/repo", BuildFlags: []string{"-tags=" + tags}}
	pkgs, err := packages.Load(cfg, os.Args[1])
	if err != nil {
		panic(err)
	}
	prog, spkgs := ssautil.AllPackages(pkgs, ssa.NaiveForm|ssa.InstantiateGenerics)
	prog.Build()
	for _, p := range spkgs {
		for fn := range ssautil.AllFunctions(prog) {
			if fn.Pkg != p {
				continue
			}
			for _, want := range os.Args[2:] {
				if strings.Contains(fn.String(), want) {
					fn.WriteTo(os.Stdout)
				}
			}
		}
	}
	fmt.Println("done")
}
