package main

// SMT term layer: sorts, terms with light simplification, DAG-aware printing.

import (
	"fmt"
	"math/big"
	"sort"
	"strings"
	"sync"
	"sync/atomic"
	"unsafe"
)

var termMu sync.Mutex

type SortKind int

const (
	SBool SortKind = iota
	SInt
	SRef
	SBV
	SArray
)

type Sort struct {
	Kind  SortKind
	Width int
	Idx   *Sort
	Elem  *Sort
}

var (
	BoolSort = &Sort{Kind: SBool}
	IntSort  = &Sort{Kind: SInt}
	RefSort  = &Sort{Kind: SRef}
	bvSorts  = map[int]*Sort{}
	arrSorts = map[string]*Sort{}
)

func BVSort(w int) *Sort {
	termMu.Lock()
	defer termMu.Unlock()
	if s, ok := bvSorts[w]; ok {
		return s
	}
	s := &Sort{Kind: SBV, Width: w}
	bvSorts[w] = s
	return s
}

func ArraySort(idx, elem *Sort) *Sort {
	k := idx.String() + "->" + elem.String()
	termMu.Lock()
	defer termMu.Unlock()
	if s, ok := arrSorts[k]; ok {
		return s
	}
	s := &Sort{Kind: SArray, Idx: idx, Elem: elem}
	arrSorts[k] = s
	return s
}

func (s *Sort) String() string {
	switch s.Kind {
	case SBool:
		return "Bool"
	case SInt:
		return "Int"
	case SRef:
		return "Ref"
	case SBV:
		return fmt.Sprintf("(_ BitVec %d)", s.Width)
	case SArray:
		return "(Array " + s.Idx.String() + " " + s.Elem.String() + ")"
	}
	return "?"
}

type Term struct {
	Op       string // SMT operator, or "var", "int", "bool", "bv", "bound", "app", "forall", "exists"
	Name     string // for var/app/bound
	Args     []*Term
	Sort     *Sort
	Int      *big.Int // for int / bv literal
	B        bool     // for bool literal
	Bound    []*Term  // for quantifiers
	Pats     [][]*Term
	ArgSorts []*Sort // for app: declared argument sorts
	hasBound bool
	hasQuant bool // contains a quantifier
	size     int
	id       int
}

var termCounter int64

type internShard struct {
	mu sync.Mutex
	m  map[uint64][]*Term
}

var internShards [64]internShard

func init() {
	for i := range internShards {
		internShards[i].m = map[uint64][]*Term{}
	}
}

// sweepInterned forgets every hash-consed term created after mark (no goroutine may be building terms meanwhile).
func sweepInterned(mark int64) {
	for i := range internShards {
		sh := &internShards[i]
		sh.mu.Lock()
		for h, l := range sh.m {
			k := 0
			for _, x := range l {
				if int64(x.id) <= mark {
					l[k] = x
					k++
				}
			}
			if k == 0 {
				delete(sh.m, h)
			} else if k < len(l) {
				for z := k; z < len(l); z++ {
					l[z] = nil
				}
				sh.m[h] = l[:k]
			}
		}
		sh.mu.Unlock()
	}
	skMemo.Range(func(k, _ any) bool {
		skMemo.Delete(k)
		return true
	})
	instMemo.Range(func(k, _ any) bool {
		instMemo.Delete(k)
		return true
	})
}

func termHash(t *Term) uint64 {
	const prime = 1099511628211
	h := uint64(14695981039346656037)
	mix := func(x uint64) {
		h ^= x
		h *= prime
	}
	for i := 0; i < len(t.Op); i++ {
		mix(uint64(t.Op[i]))
	}
	mix(0xff)
	for i := 0; i < len(t.Name); i++ {
		mix(uint64(t.Name[i]))
	}
	mix(uint64(uintptr(unsafe.Pointer(t.Sort))))
	if t.Int != nil {
		for _, w := range t.Int.Bits() {
			mix(uint64(w))
		}
		mix(uint64(t.Int.Sign() + 2))
	}
	if t.B {
		mix(7)
	}
	for _, a := range t.Args {
		mix(uint64(a.id))
	}
	return h
}

func sameShape(a, b *Term) bool {
	if a.Op != b.Op || a.Name != b.Name || a.Sort != b.Sort || a.B != b.B || len(a.Args) != len(b.Args) {
		return false
	}
	if (a.Int == nil) != (b.Int == nil) || (a.Int != nil && a.Int.Cmp(b.Int) != 0) {
		return false
	}
	for i := range a.Args {
		if a.Args[i] != b.Args[i] {
			return false
		}
	}
	return true
}

// intern returns the canonical instance of a structurally identical term (hash-consing).
func intern(t *Term) *Term {
	switch t.Op {
	case "forall", "exists":
		return t
	}
	h := termHash(t)
	sh := &internShards[h&63]
	sh.mu.Lock()
	defer sh.mu.Unlock()
	for _, x := range sh.m[h] {
		if sameShape(x, t) {
			return x
		}
	}
	sh.m[h] = append(sh.m[h], t)
	return t
}

func mk(op string, sort *Sort, args ...*Term) *Term {
	switch op {
	case "var", "bound", "int", "bv", "app", "extract", "zext", "sext", "constarr", "forall", "exists":
		return mkRaw(op, sort, args...)
	}
	return intern(mkRaw(op, sort, args...))
}

func mkRaw(op string, sort *Sort, args ...*Term) *Term {
	id := int(atomic.AddInt64(&termCounter, 1))
	t := &Term{Op: op, Sort: sort, Args: args, id: id, size: 1}
	for _, a := range args {
		if a.hasBound {
			t.hasBound = true
		}
		if a.hasQuant {
			t.hasQuant = true
		}
		t.size += a.size
		if t.size > 1<<30 {
			t.size = 1 << 30
		}
	}
	return t
}

func Var(name string, s *Sort) *Term {
	t := mk("var", s)
	t.Name = name
	return intern(t)
}

func BoundVar(name string, s *Sort) *Term {
	t := mk("bound", s)
	t.Name = name
	t.hasBound = true
	return intern(t)
}

func IntLit(v int64) *Term { return IntBig(big.NewInt(v)) }

func IntBig(v *big.Int) *Term {
	t := mk("int", IntSort)
	t.Int = new(big.Int).Set(v)
	return intern(t)
}

func BVLit(v *big.Int, w int) *Term {
	t := mk("bv", BVSort(w))
	m := new(big.Int).Lsh(big.NewInt(1), uint(w))
	x := new(big.Int).Mod(v, m)
	t.Int = x
	return intern(t)
}

var (
	True  = &Term{Op: "bool", Sort: BoolSort, B: true, size: 1, id: -1}
	False = &Term{Op: "bool", Sort: BoolSort, B: false, size: 1, id: -2}
)

func BoolLit(b bool) *Term {
	if b {
		return True
	}
	return False
}

func (t *Term) IsTrue() bool  { return t.Op == "bool" && t.B }
func (t *Term) IsFalse() bool { return t.Op == "bool" && !t.B }
func (t *Term) IsIntLit() bool {
	return t.Op == "int"
}

func sameTerm(a, b *Term) bool {
	if a == b {
		return true
	}
	if !a.hasBound && !b.hasBound && a.Op != "forall" && a.Op != "exists" {
		return false // hash-consed: structurally equal terms are identical
	}
	if a.Op != b.Op || a.Sort != b.Sort || len(a.Args) != len(b.Args) {
		return false
	}
	switch a.Op {
	case "int", "bv":
		return a.Int.Cmp(b.Int) == 0
	case "bool":
		return a.B == b.B
	case "var", "bound":
		return a.Name == b.Name
	case "forall", "exists":
		return false
	}
	if a.Name != b.Name {
		return false
	}
	if a.size > 40 {
		return false
	}
	for i := range a.Args {
		if !sameTerm(a.Args[i], b.Args[i]) {
			return false
		}
	}
	return true
}

func Not(a *Term) *Term {
	if a.Op == "bool" {
		return BoolLit(!a.B)
	}
	if a.Op == "not" {
		return a.Args[0]
	}
	return mk("not", BoolSort, a)
}

func And(as ...*Term) *Term {
	var out []*Term
	for _, a := range as {
		if a.IsTrue() {
			continue
		}
		if a.IsFalse() {
			return False
		}
		if a.Op == "and" {
			out = append(out, a.Args...)
			continue
		}
		out = append(out, a)
	}
	if len(out) == 0 {
		return True
	}
	if len(out) == 1 {
		return out[0]
	}
	return mk("and", BoolSort, out...)
}

func Or(as ...*Term) *Term {
	var out []*Term
	for _, a := range as {
		if a.IsFalse() {
			continue
		}
		if a.IsTrue() {
			return True
		}
		if a.Op == "or" {
			out = append(out, a.Args...)
			continue
		}
		out = append(out, a)
	}
	if len(out) == 0 {
		return False
	}
	if len(out) == 1 {
		return out[0]
	}
	return mk("or", BoolSort, out...)
}

func Implies(a, b *Term) *Term {
	if a.IsTrue() {
		return b
	}
	if a.IsFalse() || b.IsTrue() {
		return True
	}
	if b.IsFalse() {
		return Not(a)
	}
	return mk("=>", BoolSort, a, b)
}

func Ite(c, a, b *Term) *Term {
	if c.IsTrue() {
		return a
	}
	if c.IsFalse() {
		return b
	}
	if sameTerm(a, b) {
		return a
	}
	if a.Sort == BoolSort {
		if a.IsTrue() && b.IsFalse() {
			return c
		}
		if a.IsFalse() && b.IsTrue() {
			return Not(c)
		}
	}
	if a.Sort != b.Sort {
		panic(fmt.Sprintf("ite sort mismatch %s vs %s: %s / %s", a.Sort, b.Sort, a, b))
	}
	return mk("ite", a.Sort, c, a, b)
}

func Eq(a, b *Term) *Term {
	if a.Sort != b.Sort {
		panic(fmt.Sprintf("eq sort mismatch %s vs %s: %s = %s", a.Sort, b.Sort, a, b))
	}
	if sameTerm(a, b) {
		return True
	}
	if (a.Op == "int" && b.Op == "int") || (a.Op == "bv" && b.Op == "bv") {
		return BoolLit(a.Int.Cmp(b.Int) == 0)
	}
	if a.Op == "bool" && b.Op == "bool" {
		return BoolLit(a.B == b.B)
	}
	if a.Sort == BoolSort {
		if a.IsTrue() {
			return b
		}
		if b.IsTrue() {
			return a
		}
		if a.IsFalse() {
			return Not(b)
		}
		if b.IsFalse() {
			return Not(a)
		}
	}
	if a.Sort == RefSort {
		// distinct constructors / literal object ids
		if a.Op == "nil" && b.Op == "nil" {
			return True
		}
		if (a.Op == "nil" && (b.Op == "obj" || b.Op == "emb" || b.Op == "elem")) || (b.Op == "nil" && (a.Op == "obj" || a.Op == "emb" || a.Op == "elem")) {
			return False
		}
		if a.Op == "obj" && b.Op == "obj" {
			return Eq(a.Args[0], b.Args[0])
		}
		isC := func(t *Term) bool { return t.Op == "obj" || t.Op == "emb" || t.Op == "elem" }
		if isC(a) && isC(b) && a.Op != b.Op {
			return False
		}
		if a.Op == "emb" && b.Op == "emb" {
			fe := Eq(a.Args[1], b.Args[1])
			if fe.IsFalse() {
				return False
			}
			if fe.IsTrue() {
				return Eq(a.Args[0], b.Args[0])
			}
		}
		if a.Op == "elem" && b.Op == "elem" {
			return And(Eq(a.Args[0], b.Args[0]), Eq(a.Args[1], b.Args[1]))
		}
	}
	return mk("=", BoolSort, a, b)
}

func Neq(a, b *Term) *Term { return Not(Eq(a, b)) }

func intBin(op string, a, b *Term, f func(x, y *big.Int) *big.Int) *Term {
	if a.Op == "int" && b.Op == "int" && f != nil {
		if r := f(a.Int, b.Int); r != nil {
			return IntBig(r)
		}
	}
	return mk(op, IntSort, a, b)
}

func Add(a, b *Term) *Term {
	if a.Sort.Kind == SBV {
		return bvBin("bvadd", a, b)
	}
	if b.Op == "int" && b.Int.Sign() == 0 {
		return a
	}
	if a.Op == "int" && a.Int.Sign() == 0 {
		return b
	}
	// (x + c1) + c2
	if b.Op == "int" && a.Op == "+" && len(a.Args) == 2 && a.Args[1].Op == "int" {
		return Add(a.Args[0], IntBig(new(big.Int).Add(a.Args[1].Int, b.Int)))
	}
	return intBin("+", a, b, func(x, y *big.Int) *big.Int { return new(big.Int).Add(x, y) })
}

func Sub(a, b *Term) *Term {
	if a.Sort.Kind == SBV {
		return bvBin("bvsub", a, b)
	}
	if b.Op == "int" && b.Int.Sign() == 0 {
		return a
	}
	if b.Op == "int" {
		return Add(a, IntBig(new(big.Int).Neg(b.Int)))
	}
	if sameTerm(a, b) {
		return IntLit(0)
	}
	return intBin("-", a, b, func(x, y *big.Int) *big.Int { return new(big.Int).Sub(x, y) })
}

func Mul(a, b *Term) *Term {
	if a.Sort.Kind == SBV {
		return bvBin("bvmul", a, b)
	}
	if b.Op == "int" && b.Int.Cmp(big.NewInt(1)) == 0 {
		return a
	}
	if a.Op == "int" && a.Int.Cmp(big.NewInt(1)) == 0 {
		return b
	}
	return intBin("*", a, b, func(x, y *big.Int) *big.Int { return new(big.Int).Mul(x, y) })
}

// SMT-LIB div/mod are Euclidean; Go's are truncated. These are the raw SMT ops.
func EDiv(a, b *Term) *Term {
	return intBin("div", a, b, func(x, y *big.Int) *big.Int {
		if y.Sign() == 0 {
			return nil
		}
		q, _ := new(big.Int).DivMod(x, y, new(big.Int))
		return q
	})
}

func EMod(a, b *Term) *Term {
	return intBin("mod", a, b, func(x, y *big.Int) *big.Int {
		if y.Sign() == 0 {
			return nil
		}
		_, m := new(big.Int).DivMod(x, y, new(big.Int))
		return m
	})
}

func cmpInt(op string, a, b *Term, f func(c int) bool) *Term {
	if a.Op == "int" && b.Op == "int" {
		return BoolLit(f(a.Int.Cmp(b.Int)))
	}
	if sameTerm(a, b) {
		return BoolLit(f(0))
	}
	return mk(op, BoolSort, a, b)
}

func Lt(a, b *Term) *Term { return cmpInt("<", a, b, func(c int) bool { return c < 0 }) }
func Le(a, b *Term) *Term { return cmpInt("<=", a, b, func(c int) bool { return c <= 0 }) }
func Gt(a, b *Term) *Term { return Lt(b, a) }
func Ge(a, b *Term) *Term { return Le(b, a) }

func Neg(a *Term) *Term {
	if a.Sort.Kind == SBV {
		return mk("bvneg", a.Sort, a)
	}
	return Sub(IntLit(0), a)
}

func bvBin(op string, a, b *Term) *Term {
	if a.Sort != b.Sort {
		panic(fmt.Sprintf("bv sort mismatch in %s: %s vs %s", op, a.Sort, b.Sort))
	}
	return mk(op, a.Sort, a, b)
}

func BVOp(op string, a, b *Term) *Term { return bvBin(op, a, b) }

func BVCmp(op string, a, b *Term) *Term {
	if a.Sort != b.Sort {
		panic(fmt.Sprintf("bv sort mismatch in %s: %s vs %s", op, a.Sort, b.Sort))
	}
	if a.Op == "bv" && b.Op == "bv" {
		switch op {
		case "bvult":
			return BoolLit(a.Int.Cmp(b.Int) < 0)
		case "bvule":
			return BoolLit(a.Int.Cmp(b.Int) <= 0)
		}
	}
	return mk(op, BoolSort, a, b)
}

func BVExtract(hi, lo int, a *Term) *Term {
	if lo == 0 && hi == a.Sort.Width-1 {
		return a
	}
	t := mk("extract", BVSort(hi-lo+1), a)
	t.Name = fmt.Sprintf("(_ extract %d %d)", hi, lo)
	return intern(t)
}

func BVZeroExt(n int, a *Term) *Term {
	if n == 0 {
		return a
	}
	if a.Op == "bv" {
		return BVLit(a.Int, a.Sort.Width+n)
	}
	t := mk("zext", BVSort(a.Sort.Width+n), a)
	t.Name = fmt.Sprintf("(_ zero_extend %d)", n)
	return intern(t)
}

func BVSignExt(n int, a *Term) *Term {
	if n == 0 {
		return a
	}
	if a.Op == "bv" {
		w := a.Sort.Width
		v := new(big.Int).Set(a.Int)
		if v.Bit(w-1) == 1 {
			v.Sub(v, new(big.Int).Lsh(big.NewInt(1), uint(w)))
		}
		return BVLit(v, w+n)
	}
	t := mk("sext", BVSort(a.Sort.Width+n), a)
	t.Name = fmt.Sprintf("(_ sign_extend %d)", n)
	return intern(t)
}

func Select(a, i *Term) *Term {
	if a.Sort.Kind != SArray {
		panic("select on non-array " + a.String())
	}
	if i.Sort != a.Sort.Idx {
		panic(fmt.Sprintf("select index sort mismatch: %s[%s]", a.Sort, i.Sort))
	}
	// read over write
	cur := a
	for cur.Op == "store" {
		e := Eq(cur.Args[1], i)
		if e.IsTrue() {
			return cur.Args[2]
		}
		if e.IsFalse() {
			cur = cur.Args[0]
			continue
		}
		break
	}
	return mk("select", cur.Sort.Elem, cur, i)
}

func Store(a, i, v *Term) *Term {
	if a.Sort.Kind != SArray || i.Sort != a.Sort.Idx || v.Sort != a.Sort.Elem {
		panic(fmt.Sprintf("store sort mismatch: %s [%s] := %s", a.Sort, i.Sort, v.Sort))
	}
	return mk("store", a.Sort, a, i, v)
}

// App applies an uninterpreted function (declared on demand).
func App(name string, res *Sort, args ...*Term) *Term {
	t := mk("app", res, args...)
	t.Name = name
	for _, a := range args {
		t.ArgSorts = append(t.ArgSorts, a.Sort)
	}
	return intern(t)
}

func Forall(bound []*Term, body *Term) *Term { return quant("forall", bound, body) }
func Exists(bound []*Term, body *Term) *Term { return quant("exists", bound, body) }

func quant(q string, bound []*Term, body *Term) *Term {
	if body.Op == "bool" {
		return body
	}
	if len(bound) == 0 {
		return body
	}
	t := mk(q, BoolSort, body)
	t.hasQuant = true
	t.Bound = bound
	// still contains bound vars only if body references outer bound vars
	t.hasBound = hasOuterBound(body, bound)
	return t
}

func hasOuterBound(t *Term, inner []*Term) bool {
	if !t.hasBound {
		return false
	}
	found := false
	seen := map[*Term]bool{}
	var walk func(x *Term, bound map[string]bool)
	walk = func(x *Term, bound map[string]bool) {
		if found || !x.hasBound || seen[x] {
			return
		}
		if x.Op == "bound" {
			if !bound[x.Name] {
				found = true
			}
			return
		}
		if x.Op == "forall" || x.Op == "exists" {
			nb := map[string]bool{}
			for k := range bound {
				nb[k] = true
			}
			for _, b := range x.Bound {
				nb[b.Name] = true
			}
			walk(x.Args[0], nb)
			return
		}
		seen[x] = true
		for _, a := range x.Args {
			walk(a, bound)
		}
	}
	b := map[string]bool{}
	for _, v := range inner {
		b[v.Name] = true
	}
	walk(t, b)
	return found
}

// Ref constructors
var NilRef = &Term{Op: "nil", Sort: RefSort, size: 1, id: -3}

func Obj(id *Term) *Term         { return mk("obj", RefSort, id) }
func Emb(p *Term, fld int) *Term { return mk("emb", RefSort, p, IntLit(int64(fld))) }
func ElemRef(p, idx *Term) *Term { return mk("elem", RefSort, p, idx) }
func RootID(r *Term) *Term {
	switch r.Op {
	case "nil":
		return IntLit(-1)
	case "obj":
		return r.Args[0]
	case "emb", "elem":
		return RootID(r.Args[0])
	}
	return mk("rootid", IntSort, r)
}

// Substitute replaces bound/var terms by name.
func Substitute(t *Term, m map[string]*Term) *Term {
	cache := map[*Term]*Term{}
	var rec func(x *Term) *Term
	rec = func(x *Term) *Term {
		if !x.hasBound {
			// only bound variables are ever substituted: a term without free bound variables is unchanged
			return x
		}
		if r, ok := cache[x]; ok {
			return r
		}
		var r *Term
		switch x.Op {
		case "var", "bound":
			if v, ok := m[x.Name]; ok {
				r = v
			} else {
				r = x
			}
		case "int", "bv", "bool", "nil":
			r = x
		case "forall", "exists":
			body := rec(x.Args[0])
			r = quant(x.Op, x.Bound, body)
			if r.Op == x.Op {
				r.Pats = x.Pats
			}
		default:
			changed := false
			args := make([]*Term, len(x.Args))
			for i, a := range x.Args {
				args[i] = rec(a)
				if args[i] != a {
					changed = true
				}
			}
			if !changed {
				r = x
			} else {
				r = rebuild(x, args)
			}
		}
		cache[x] = r
		return r
	}
	return rec(t)
}

func rebuild(x *Term, args []*Term) *Term {
	switch x.Op {
	case "and":
		return And(args...)
	case "or":
		return Or(args...)
	case "not":
		return Not(args[0])
	case "=>":
		return Implies(args[0], args[1])
	case "ite":
		return Ite(args[0], args[1], args[2])
	case "=":
		return Eq(args[0], args[1])
	case "+":
		if len(args) == 2 {
			return Add(args[0], args[1])
		}
	case "-":
		if len(args) == 2 {
			return Sub(args[0], args[1])
		}
	case "*":
		if len(args) == 2 {
			return Mul(args[0], args[1])
		}
	case "<":
		return Lt(args[0], args[1])
	case "<=":
		return Le(args[0], args[1])
	case "select":
		return Select(args[0], args[1])
	}
	t := mk(x.Op, x.Sort, args...)
	t.Name = x.Name
	t.ArgSorts = x.ArgSorts
	return t
}

// ---------------------------------------------------------------- printing

func (t *Term) String() string {
	p := &printer{names: map[*Term]string{}}
	return p.inline(t)
}

type printer struct {
	names  map[*Term]string // shared subterm -> defined name
	decls  map[string]string
	order  []string
	defs   []string
	refcnt map[*Term]int
}

func smtInt(v *big.Int) string {
	if v.Sign() < 0 {
		return "(- " + new(big.Int).Neg(v).String() + ")"
	}
	return v.String()
}

func (p *printer) inline(t *Term) string {
	if n, ok := p.names[t]; ok {
		return n
	}
	switch t.Op {
	case "var":
		p.declare(t.Name, nil, t.Sort)
		return t.Name
	case "bound":
		return t.Name
	case "int":
		return smtInt(t.Int)
	case "bv":
		return fmt.Sprintf("(_ bv%s %d)", t.Int.String(), t.Sort.Width)
	case "bool":
		if t.B {
			return "true"
		}
		return "false"
	case "nil":
		return "nil"
	case "forall", "exists":
		var sb strings.Builder
		sb.WriteString("(" + t.Op + " (")
		for _, b := range t.Bound {
			sb.WriteString("(" + b.Name + " " + b.Sort.String() + ")")
		}
		sb.WriteString(") ")
		body := p.inline(t.Args[0])
		if len(t.Pats) > 0 {
			sb.WriteString("(! " + body)
			for _, pat := range t.Pats {
				sb.WriteString(" :pattern (")
				for i, x := range pat {
					if i > 0 {
						sb.WriteString(" ")
					}
					sb.WriteString(p.inline(x))
				}
				sb.WriteString(")")
			}
			sb.WriteString(")")
		} else {
			sb.WriteString(body)
		}
		sb.WriteString(")")
		return sb.String()
	case "app":
		p.declare(t.Name, t.ArgSorts, t.Sort)
		if len(t.Args) == 0 {
			return t.Name
		}
	case "rootid":
		return "(rootid " + p.inline(t.Args[0]) + ")"
	}
	head := t.Op
	switch t.Op {
	case "app", "extract", "zext", "sext", "constarr":
		head = t.Name
	}
	var sb strings.Builder
	sb.WriteString("(" + head)
	for _, a := range t.Args {
		sb.WriteString(" ")
		sb.WriteString(p.inline(a))
	}
	sb.WriteString(")")
	return sb.String()
}

func (p *printer) declare(name string, args []*Sort, res *Sort) {
	if p.decls == nil {
		p.decls = map[string]string{}
	}
	if _, ok := p.decls[name]; ok {
		return
	}
	var as []string
	for _, a := range args {
		as = append(as, a.String())
	}
	p.decls[name] = fmt.Sprintf("(declare-fun %s (%s) %s)", name, strings.Join(as, " "), res.String())
	p.order = append(p.order, name)
}

// share names every non-leaf, bound-free subterm used more than once.
func (p *printer) share(roots []*Term) {
	p.refcnt = map[*Term]int{}
	var count func(t *Term)
	count = func(t *Term) {
		p.refcnt[t]++
		if p.refcnt[t] > 1 {
			return
		}
		for _, a := range t.Args {
			count(a)
		}
	}
	for _, r := range roots {
		count(r)
	}
	done := map[*Term]bool{}
	var def func(t *Term)
	def = func(t *Term) {
		if done[t] {
			return
		}
		done[t] = true
		for _, a := range t.Args {
			def(a)
		}
		if p.refcnt[t] > 1 && !t.hasBound && len(t.Args) > 0 && t.size > 3 {
			s := p.inline(t)
			name := fmt.Sprintf("$s%d", len(p.defs))
			p.defs = append(p.defs, fmt.Sprintf("(define-fun %s () %s %s)", name, t.Sort.String(), s))
			p.names[t] = name
		}
	}
	for _, r := range roots {
		def(r)
	}
}

const smtPreludeDecls = `(declare-sort Ref 0)
(declare-fun nil () Ref)
(declare-fun obj (Int) Ref)
(declare-fun emb (Ref Int) Ref)
(declare-fun elem (Ref Int) Ref)
(declare-fun kind (Ref) Int)
(declare-fun oid (Ref) Int)
(declare-fun eparent (Ref) Ref)
(declare-fun efld (Ref) Int)
(declare-fun lparent (Ref) Ref)
(declare-fun lidx (Ref) Int)
(declare-fun rootid (Ref) Int)
(declare-fun parentof (Ref) Ref)
(define-fun isemb ((r Ref)) Bool (= (kind r) 2))
`

const smtPreludeAxioms = `(assert (and (= (kind nil) 0) (= (rootid nil) (- 1)) (= (parentof nil) nil)))
(assert (forall ((k Int)) (! (and (= (kind (obj k)) 1) (= (oid (obj k)) k) (= (rootid (obj k)) k) (= (parentof (obj k)) (obj k))) :pattern ((obj k)))))
(assert (forall ((p Ref) (f Int)) (! (and (= (kind (emb p f)) 2) (= (eparent (emb p f)) p) (= (efld (emb p f)) f) (= (rootid (emb p f)) (rootid p)) (= (parentof (emb p f)) p)) :pattern ((emb p f)))))
(assert (forall ((p Ref) (i Int)) (! (and (= (kind (elem p i)) 3) (= (lparent (elem p i)) p) (= (lidx (elem p i)) i) (= (rootid (elem p i)) (rootid p)) (= (parentof (elem p i)) p)) :pattern ((elem p i)))))
`

const smtPrelude = smtPreludeDecls + smtPreludeAxioms

// Query renders assumptions and a negated goal as a complete SMT-LIB script.
func Query(assumptions []*Term, goal *Term, wantModel bool) string {
	return queryWith(assumptions, goal, wantModel, false)
}

// QueryGround renders the query with the Ref axioms instantiated for the constructor terms that occur
// (no quantified prelude): used for the quantifier-free stage.
func QueryGround(assumptions []*Term, goal *Term) string {
	return queryWith(assumptions, goal, false, true)
}

func refFacts(roots []*Term) []*Term {
	seen := map[*Term]bool{}
	var facts []*Term
	var walk func(t *Term)
	walk = func(t *Term) {
		if seen[t] || t.hasBound {
			if t.hasBound && !seen[t] {
				seen[t] = true
				for _, a := range t.Args {
					walk(a)
				}
			}
			return
		}
		seen[t] = true
		for _, a := range t.Args {
			walk(a)
		}
		switch t.Op {
		case "obj":
			facts = append(facts, Eq(mk("kind", IntSort, t), IntLit(1)), Eq(mk("oid", IntSort, t), t.Args[0]),
				Eq(mk("rootid", IntSort, t), t.Args[0]), Eq(mk("parentof", RefSort, t), t))
		case "emb":
			facts = append(facts, Eq(mk("kind", IntSort, t), IntLit(2)), Eq(mk("eparent", RefSort, t), t.Args[0]), Eq(mk("efld", IntSort, t), t.Args[1]),
				Eq(mk("rootid", IntSort, t), mk("rootid", IntSort, t.Args[0])), Eq(mk("parentof", RefSort, t), t.Args[0]))
		case "elem":
			facts = append(facts, Eq(mk("kind", IntSort, t), IntLit(3)), Eq(mk("lparent", RefSort, t), t.Args[0]), Eq(mk("lidx", IntSort, t), t.Args[1]),
				Eq(mk("rootid", IntSort, t), mk("rootid", IntSort, t.Args[0])), Eq(mk("parentof", RefSort, t), t.Args[0]))
		}
	}
	for _, r := range roots {
		walk(r)
	}
	return facts
}

func queryWith(assumptions []*Term, goal *Term, wantModel bool, ground bool) string {
	if ground {
		roots := append([]*Term{}, assumptions...)
		if goal != nil {
			roots = append(roots, goal)
		}
		assumptions = append(refFacts(roots), assumptions...)
	}
	p := &printer{names: map[*Term]string{}}
	roots := append([]*Term{}, assumptions...)
	if goal != nil {
		roots = append(roots, goal)
	}
	p.share(roots)
	var body strings.Builder
	for _, a := range assumptions {
		body.WriteString("(assert " + p.inline(a) + ")\n")
	}
	if goal != nil {
		body.WriteString("(assert (not " + p.inline(goal) + "))\n")
	}
	var sb strings.Builder
	if wantModel {
		sb.WriteString("(set-option :produce-models true)\n")
	}
	sb.WriteString("(set-logic ALL)\n")
	if ground {
		sb.WriteString(smtPreludeDecls)
		sb.WriteString("(assert (and (= (kind nil) 0) (= (rootid nil) (- 1)) (= (parentof nil) nil)))\n")
	} else {
		sb.WriteString(smtPrelude)
	}
	// declarations must precede definitions: definitions were rendered through inline(), which registered decls
	names := append([]string{}, p.order...)
	sort.Strings(names)
	for _, n := range names {
		sb.WriteString(p.decls[n] + "\n")
	}
	for _, d := range p.defs {
		sb.WriteString(d + "\n")
	}
	sb.WriteString(body.String())
	sb.WriteString("(check-sat)\n")
	return sb.String()
}
