package main

import (
	"flag"
	"fmt"
	"os"
	"runtime/pprof"
	"strings"
	"time"
)

func main() {
	if len(os.Args) < 2 {
		fmt.Fprintln(os.Stderr, "usage: gvc <verify|check> ...")
		os.Exit(2)
	}
	if pf := os.Getenv("GVC_PROF"); pf != "" {
		f, err := os.Create(pf)
		if err == nil {
			pprof.StartCPUProfile(f)
			defer pprof.StopCPUProfile()
		}
	}
	if mf := os.Getenv("GVC_MEMPROF"); mf != "" {
		defer func() {
			f, err := os.Create(mf)
			if err == nil {
				pprof.WriteHeapProfile(f)
				f.Close()
			}
		}()
	}
	switch os.Args[1] {
	case "verify":
		cmdVerify(os.Args[2:])
	case "check":
		cmdCheck(os.Args[2:])
	default:
		fmt.Fprintln(os.Stderr, "unknown command", os.Args[1])
		os.Exit(2)
	}
}

// verify: ad-hoc verification of functions in a package (development aid).
func cmdVerify(args []string) {
	fs := flag.NewFlagSet("verify", flag.ExitOnError)
	repo := fs.String("repo", "/repo", "repository")
	tags := fs.String("tags", "verif", "build tags")
	trusted := fs.String("trusted", "/verif/contracts/trusted", "trusted contracts dir")
	only := fs.String("only", "", "substring filter on function display name")
	timeout := fs.Int("timeout", 20, "solver timeout (s)")
	dump := fs.String("dump", "", "dump the query of obligations whose name contains this")
	verbose := fs.Bool("v", false, "verbose")
	fs.Parse(args)
	pats := fs.Args()
	P, err := LoadProgram(*repo, pats, *tags, *trusted)
	if err != nil {
		fmt.Fprintln(os.Stderr, "load:", err)
		os.Exit(2)
	}
	work, _ := os.MkdirTemp("", "gvc")
	defer os.RemoveAll(work)
	cfg := &SolverCfg{WorkDir: work, Quick: 3 * time.Second, Full: time.Duration(*timeout) * time.Second, Parallel: parallelism()}
	bad := 0
	for _, key := range P.Specs.Order {
		c := P.Specs.Contracts[key]
		if c.Trusted || c.IsIface {
			continue
		}
		name := displayName(c.Pkg, c.Key)
		if *only != "" && !strings.Contains(name, *only) {
			continue
		}
		inPats := false
		for _, p := range P.Pkgs {
			if p.PkgPath == c.Pkg {
				inPats = true
			}
		}
		if !inPats {
			continue
		}
		t0 := time.Now()
		r := VerifyFunc(P, c, 20000)
		if r.Err != "" {
			fmt.Printf("ERROR %s: %s\n", r.Name, r.Err)
			bad++
		}
		Discharge(cfg, r.Obls)
		nd, nf := 0, 0
		for _, o := range r.Obls {
			if o.Status == "discharged" {
				nd++
				if o.Ms > 2000 {
					fmt.Printf("  slow %s path %d: %dms (%s)\n", o.Name, o.Path, o.Ms, o.Solver)
				}
			} else {
				nf++
				fmt.Printf("  FAIL %s [%s] path %d at %s (%s %dms)\n", o.Name, o.Status, o.Path, o.Pos, o.Solver, o.Ms)
				if *verbose && o.Model != "" {
					fmt.Println(indent(trimModel(o.Model), "      "))
				}
				if *verbose && o.Status == "failed-unknown" {
					fmt.Println(indent(firstLines(o.Output, 5), "      "))
				}
			}
			if *dump != "" && strings.Contains(o.Name, *dump) && !o.Trivial {
				fn := fmt.Sprintf("/tmp/dump_%d.smt2", o.Path)
				os.WriteFile(fn, []byte(Query(o.Assump, o.Goal, true)+"(get-model)\n"), 0o644)
				fmt.Println("  dumped", o.Name, "->", fn)
			}
		}
		vac := "?"
		if r.Vacuity != nil {
			a := CheckSat(cfg, r.Vacuity.Assump)
			vac = a.status
		}
		fmt.Printf("%s: %d obligations, %d discharged, %d failed, %d paths, requires %s, %.1fs\n", r.Name, len(r.Obls), nd, nf, r.Paths, vac, time.Since(t0).Seconds())
		bad += nf
	}
	if bad > 0 {
		os.RemoveAll(work) // deferred calls do not run on os.Exit
		os.Exit(1)
	}
}

func indent(s, pre string) string {
	return pre + strings.ReplaceAll(strings.TrimRight(s, "\n"), "\n", "\n"+pre)
}

func firstLines(s string, n int) string {
	ls := strings.Split(s, "\n")
	if len(ls) > n {
		ls = ls[:n]
	}
	return strings.Join(ls, "\n")
}

func trimModel(m string) string {
	// keep only definitions of parameter symbols (p_*) and small scalars
	var out []string
	lines := strings.Split(m, "\n")
	for i := 0; i < len(lines); i++ {
		l := lines[i]
		if strings.Contains(l, "define-fun p_") || strings.Contains(l, "define-fun WM0") {
			s := strings.TrimSpace(l)
			if i+1 < len(lines) {
				s += " " + strings.TrimSpace(lines[i+1])
			}
			out = append(out, s)
		}
	}
	return strings.Join(out, "\n")
}
