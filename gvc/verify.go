package main

// Verification of one function against its contract.

import (
	"fmt"
	"go/types"
	"os"
	"runtime/debug"
	"sort"
	"strings"

	"golang.org/x/tools/go/ssa"
)

type FuncResult struct {
	Name    string
	Pkg     string
	Key     string
	Mode    Mode
	Obls    []*Obligation
	Paths   int
	Err     string
	Trusted []string
	Inlined []string
	Vacuity *Obligation // requires-satisfiable (expects sat)
	Loops   int
	Pos     string
	Used    []string
	fv      *FV
}

// evalEntry evaluates a contract-language predicate over the function's entry state.
func (r *FuncResult) evalEntry(src string) (t *Term, err error) {
	defer func() {
		if x := recover(); x != nil {
			err = fmt.Errorf("region %q: %v", src, x)
		}
	}()
	e, perr := ParseExpr(src, "known_findings.json")
	if perr != nil {
		return nil, perr
	}
	env := &Env{fv: r.fv, pkg: r.fv.pkgPath, st: r.fv.entry, vars: r.fv.entryEnv}
	return env.evalBool(e), nil
}

func displayName(pkgPath, key string) string {
	short := pkgPath
	if k := strings.LastIndex(pkgPath, "/"); k >= 0 {
		short = pkgPath[k+1:]
	}
	if short == "v2" {
		short = "gnet"
	}
	return short + "." + key
}

// VerifyFunc runs the symbolic execution twice: the first pass only collects the set of heap arrays the
// function may write (needed to havoc completely at loop heads and coarse frames), the second generates obligations.
func VerifyFunc(P *Program, c *Contract, maxPaths int) (res *FuncResult) {
	touchedKeys = map[string]bool{}
	first := verifyFuncPass(P, c, maxPaths, nil)
	if first.Err != "" && first.fv == nil {
		return first
	}
	touched := map[string]bool{}
	for k := range touchedKeys {
		touched[k] = true
	}
	if os.Getenv("GVC_KEYS") != "" {
		var ks []string
		for k := range touched {
			ks = append(ks, k)
		}
		sort.Strings(ks)
		fmt.Printf("  keys of %s: %q\n", c.Key, ks)
	}
	if first.fv != nil {
		for _, o := range first.fv.obls {
			_ = o
		}
	}
	return verifyFuncPass(P, c, maxPaths, touched)
}

func verifyFuncPass(P *Program, c *Contract, maxPaths int, touched map[string]bool) (res *FuncResult) {
	res = &FuncResult{Name: displayName(c.Pkg, c.Key), Pkg: c.Pkg, Key: c.Key, Mode: c.Mode, Pos: c.Pos}
	fn := P.FindFunc(c.Pkg, c.Key)
	if fn == nil {
		res.Err = fmt.Sprintf("binding failure: contract %s (%s) names no function in %s", c.Key, c.Pos, c.Pkg)
		return
	}
	fv := &FV{P: P, fn: fn, c: c, l: layout{c.Mode}, pkgPath: c.Pkg, name: res.Name,
		ordinals: map[string]map[ssa.Instruction]int{}, trusted: map[string]bool{}, inlined: map[string]bool{},
		maxPaths: maxPaths, sentinel: map[string]int{}, used: map[string]bool{}, touched: touched}
	defer func() {
		if r := recover(); r != nil {
			if ee, ok := r.(execError); ok {
				res.Err = ee.msg
			} else {
				res.Err = fmt.Sprintf("internal error: %v\n%s", r, debug.Stack())
			}
		}
		res.Obls = fv.obls
		res.Paths = fv.paths
		res.fv = fv
		for k := range fv.used {
			res.Used = append(res.Used, k)
		}
		sort.Strings(res.Used)
		for k := range fv.trusted {
			res.Trusted = append(res.Trusted, k)
		}
		sort.Strings(res.Trusted)
		for k := range fv.inlined {
			res.Inlined = append(res.Inlined, k)
		}
		sort.Strings(res.Inlined)
		if fv.pow2Used {
			ax := pow2Axioms()
			for _, o := range res.Obls {
				if !o.Trivial {
					o.Assump = append(append([]*Term{}, ax...), o.Assump...)
				}
			}
		}
	}()
	fv.loops = fv.findLoops(fn)
	res.Loops = len(fv.loops)
	for ord := range c.Loops {
		if ord < 1 || ord > len(fv.loops) {
			fv.fail("binding failure: contract %s has 'loop %d' but the function has %d loops", c.Key, ord, len(fv.loops))
		}
	}
	st := &State{heap: &Heap{arrays: map[string]*Term{}, l: fv.l}, ghost: map[string]*Term{}}
	st.wm = Var("WM0", IntSort)
	st.frameWM = st.wm
	st.assume(Ge(st.wm, IntLit(0)))
	fr := fv.newFrame(fn, 0, true)
	var args []Value
	var argTypes []types.Type
	for _, p := range fn.Params {
		fv.paramFirst = append(fv.paramFirst, fv.nfresh+1)
		v := fv.freshValue("p_"+p.Name(), p.Type())
		fv.assumeType(st, v, p.Type())
		args = append(args, v)
		argTypes = append(argTypes, p.Type())
	}
	env := fv.bindContract(c, st, args, argTypes)
	// captured variables of a closure under contract: each is a pre-existing cell with arbitrary (well-typed) content;
	// the contract refers to the captured variable by its name, meaning its value at entry
	var bindings []Value
	for i, fvar := range fn.FreeVars {
		cell := Obj(IntLit(int64(-3000000 - i)))
		et := fvar.Type().(*types.Pointer).Elem()
		val := st.heap.load(et, cell)
		fv.assumeType(st, val, et)
		env.vars[fvar.Name()] = TV{val, et}
		bindings = append(bindings, Scalar{cell})
		st.priv = append(st.priv, cell) // no callee can reach the variables the closure captured
	}
	fv.entryEnv = env.vars
	for _, ax := range P.Specs.Axioms {
		if ax.Pkg == c.Pkg && c.Mode == ModeInt {
			env.assume(st, ax.Expr)
			fv.trusted["ghost definition (axiom) "+ax.Pos+": "+ax.Expr.String()] = true
		}
	}
	for _, r := range c.Requires {
		env.assume(st, r)
	}
	st.mods = env.evalLocs(c.Modifies)
	fv.entry = st.clone()
	eenv := *env
	eenv.st = fv.entry
	st.mods = append(st.mods, eenv.evalEach(c.ModEach)...)
	st.mods = append(st.mods, eenv.evalAllExcept(c.ModAll)...)
	fv.entry.mods = st.mods
	res.Vacuity = &Obligation{Func: fv.name, Kind: "requires-satisfiable", Name: fv.name + " / requires-satisfiable", Assump: append([]*Term(nil), st.pc...), Goal: nil, Pos: c.Pos}
	outs := fv.execBody(fr, st, args, bindings)
	results := fn.Signature.Results()
	if len(c.Results) != results.Len() {
		fv.fail("binding failure: contract %s declares %d results, function has %d", c.Key, len(c.Results), results.Len())
	}
	for _, o := range outs {
		if o.panicked {
			if c.PanicMaybe != "" {
				fv.trusted["may panic ("+fv.name+"): "+c.PanicMaybe] = true
				continue
			}
			allowed := False
			if c.PanicWhen != nil {
				pe := &Env{fv: fv, pkg: fv.pkgPath, st: fv.entry, vars: fv.entryEnv}
				allowed = pe.evalBool(c.PanicWhen)
			}
			n := 0
			if o.panicIn != nil {
				n = fv.ordinal("no-panic", o.panicIn)
			}
			fv.oblige(o.st, fmt.Sprintf("no-panic #%d", n), allowed, o.panicPos)
			continue
		}
		post := &Env{fv: fv, pkg: fv.pkgPath, st: o.st, old: fv.entry, vars: map[string]TV{}}
		for k, v := range fv.lets {
			post.vars[k] = v
		}
		for k, v := range fv.entryEnv {
			post.vars[k] = v
		}
		for i := 0; i < results.Len(); i++ {
			post.vars[c.Results[i].Name] = TV{o.results[i], results.At(i).Type()}
		}
		if c.PanicWhen != nil {
			pe := &Env{fv: fv, pkg: fv.pkgPath, st: fv.entry, vars: fv.entryEnv}
			fv.oblige(o.st, "panics-when-promised", Not(pe.evalBool(c.PanicWhen)), fn.Pos())
		}
		fv.applyGhostDefs(post, o.st, c.GhostDefs)
		for i, e := range c.Ensures {
			n0 := len(fv.obls)
			fv.oblige(o.st, fmt.Sprintf("ensures #%d", i+1), post.evalBool(e), fn.Pos())
			for _, ob := range fv.obls[n0:] {
				ob.Props = e.Props
			}
		}
	}
	return
}
