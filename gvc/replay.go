package main

// Replaying solver counterexamples against the real code (go test -overlay, nothing written into /repo).

import (
	"bytes"
	"context"
	"encoding/json"
	"fmt"
	"go/types"
	"math/big"
	"os"
	"os/exec"
	"path/filepath"
	"regexp"
	"strings"
	"time"
)

func runBounded(b BoundedCheck, repo, verif, tier string) (map[string]interface{}, bool) {
	ctx, cancel := context.WithTimeout(context.Background(), 20*time.Minute)
	defer cancel()
	cmd := exec.CommandContext(ctx, "sh", "-c", b.Cmd)
	cmd.Dir = verif
	cmd.Env = append(os.Environ(), "GVC_REPO="+repo, "GVC_TIER="+tier, "GOFLAGS=-mod=mod", "GOPROXY=off", "GOSUMDB=off", "GOTOOLCHAIN=local")
	var out bytes.Buffer
	cmd.Stdout = &out
	cmd.Stderr = &out
	err := cmd.Run()
	text := out.String()
	if len(text) > 4000 {
		text = text[len(text)-4000:]
	}
	return map[string]interface{}{"name": b.Name, "bound": b.Bound, "cmd": b.Cmd, "ok": err == nil, "output": text, "label": "bounded (not counted as proved)"}, err == nil
}

var modelDefRe = regexp.MustCompile(`\(define-fun\s+(\S+)\s+\(\)\s+(\([^)]*\)|\S+)\s+([^\n]*)`)

// parseModelScalars extracts scalar constant definitions from a z3 model.
func parseModelScalars(model string) map[string]*big.Int {
	res := map[string]*big.Int{}
	flat := strings.ReplaceAll(model, "\n", " ")
	flat = regexp.MustCompile(`\s+`).ReplaceAllString(flat, " ")
	re := regexp.MustCompile(`\(define-fun (\S+) \(\) (\(_ BitVec \d+\)|Int|Bool) (\(- \d+\)|#x[0-9a-fA-F]+|#b[01]+|\d+|true|false)\)`)
	for _, m := range re.FindAllStringSubmatch(flat, -1) {
		name, val := m[1], m[3]
		v := new(big.Int)
		switch {
		case strings.HasPrefix(val, "#x"):
			v.SetString(val[2:], 16)
		case strings.HasPrefix(val, "#b"):
			v.SetString(val[2:], 2)
		case strings.HasPrefix(val, "(- "):
			v.SetString(strings.TrimSuffix(val[3:], ")"), 10)
			v.Neg(v)
		case val == "true":
			v.SetInt64(1)
		case val == "false":
			v.SetInt64(0)
		default:
			v.SetString(val, 10)
		}
		res[name] = v
	}
	return res
}

func goLiteral(v *big.Int, t types.Type, bv bool) (string, bool) {
	b, ok := t.Underlying().(*types.Basic)
	if !ok {
		return "", false
	}
	switch {
	case b.Info()&types.IsBoolean != 0:
		if v.Sign() != 0 {
			return "true", true
		}
		return "false", true
	case b.Info()&types.IsInteger != 0:
		x := new(big.Int).Set(v)
		w := uint(basicWidth(b))
		if bv && b.Info()&types.IsUnsigned == 0 && x.Bit(int(w-1)) == 1 {
			x.Sub(x, new(big.Int).Lsh(big.NewInt(1), w))
		}
		ts := types.TypeString(t, func(p *types.Package) string { return "" })
		ts = strings.TrimPrefix(ts, ".")
		return fmt.Sprintf("%s(%s)", ts, x.String()), true
	}
	return "", false
}

// tryReplay runs the real function on the counterexample when all parameters are scalars.
func tryReplay(P *Program, r *FuncResult, o *Obligation, cfg *SolverCfg, repo string) map[string]interface{} {
	fv := r.fv
	if fv == nil || fv.fn == nil {
		return nil
	}
	fn := fv.fn
	vals := parseModelScalars(o.Model)
	var argLits []string
	inputs := map[string]string{}
	var argTerms []*big.Int
	for i, p := range fn.Params {
		if _, ok := p.Type().Underlying().(*types.Basic); !ok {
			return map[string]interface{}{"reproduced": false, "note": "no materialiser for parameter type " + p.Type().String()}
		}
		sym := fmt.Sprintf("p_%s!%d", sanitize(p.Name()), fv.paramFirst[i])
		v, ok := vals[sym]
		if !ok {
			v = big.NewInt(0) // unconstrained in the model
		}
		lit, ok := goLiteral(v, p.Type(), fv.l.mode == ModeBV)
		if !ok {
			return map[string]interface{}{"reproduced": false, "note": "no materialiser for parameter type " + p.Type().String()}
		}
		argLits = append(argLits, lit)
		inputs[p.Name()] = lit
		argTerms = append(argTerms, v)
	}
	if fn.Signature.Recv() != nil {
		return map[string]interface{}{"reproduced": false, "note": "scalar replayer does not handle methods"}
	}
	results := fn.Signature.Results()
	for i := 0; i < results.Len(); i++ {
		if _, ok := results.At(i).Type().Underlying().(*types.Basic); !ok {
			return map[string]interface{}{"reproduced": false, "note": "no observer for result type " + results.At(i).Type().String()}
		}
	}
	pkgName := fn.Pkg.Pkg.Name()
	var sb strings.Builder
	fmt.Fprintf(&sb, "package %s\n\nimport (\n\t\"fmt\"\n\t\"testing\"\n)\n\n", pkgName)
	fmt.Fprintf(&sb, "func TestZZGvcReplay(t *testing.T) {\n\tdefer func() {\n\t\tif r := recover(); r != nil {\n\t\t\tfmt.Printf(\"GVC-REPLAY-PANIC %%v\\n\", r)\n\t\t}\n\t}()\n")
	var rs []string
	for i := 0; i < results.Len(); i++ {
		rs = append(rs, fmt.Sprintf("r%d", i))
	}
	call := fmt.Sprintf("%s(%s)", fn.Name(), strings.Join(argLits, ", "))
	if len(rs) > 0 {
		fmt.Fprintf(&sb, "\t%s := %s\n", strings.Join(rs, ", "), call)
		fmt.Fprintf(&sb, "\tfmt.Println(\"GVC-REPLAY-RESULT\"")
		for _, x := range rs {
			fmt.Fprintf(&sb, ", %s", x)
		}
		fmt.Fprintf(&sb, ")\n")
	} else {
		fmt.Fprintf(&sb, "\t%s\n\tfmt.Println(\"GVC-REPLAY-RESULT\")\n", call)
	}
	fmt.Fprintf(&sb, "}\n")
	testSrc := sb.String()
	out, err := runOverlayTest(P, fn.Pkg.Pkg.Path(), repo, testSrc, "TestZZGvcReplay")
	rec := map[string]interface{}{"inputs": inputs, "test": testSrc, "output": lastLines(out, 15), "reproduced": false}
	if err != nil && !strings.Contains(out, "GVC-REPLAY") {
		rec["note"] = "replay test did not run: " + err.Error()
		return rec
	}
	c := fv.c
	pe := &Env{fv: fv, pkg: fv.pkgPath, st: fv.entry, vars: map[string]TV{}}
	k := 0
	if c.Recv != nil {
		k = 1
	}
	for i, p := range c.Params {
		pe.vars[p.Name] = TV{Scalar{fv.litFor(argTerms[i+k], fn.Params[i+k].Type())}, fn.Params[i+k].Type()}
	}
	concreteFalse := func(t *Term) bool {
		a := solveQuery(cfg, Query(nil, t, false), "replay")
		return a.status == "sat"
	}
	if strings.Contains(out, "GVC-REPLAY-PANIC") {
		rec["observed"] = "panic"
		allowed := False
		if c.PanicWhen != nil {
			allowed = pe.evalBool(c.PanicWhen)
		}
		if allowed.IsFalse() || concreteFalse(allowed) {
			rec["reproduced"] = true
			rec["verdict"] = "the real function panics on this input although the contract does not allow it"
		}
		return rec
	}
	line := ""
	for _, l := range strings.Split(out, "\n") {
		if strings.HasPrefix(l, "GVC-REPLAY-RESULT") {
			line = strings.TrimSpace(strings.TrimPrefix(l, "GVC-REPLAY-RESULT"))
		}
	}
	fields := strings.Fields(line)
	if len(fields) != results.Len() {
		rec["note"] = "could not parse replay output"
		return rec
	}
	rec["observed"] = line
	for i := 0; i < results.Len(); i++ {
		v := new(big.Int)
		switch fields[i] {
		case "true":
			v.SetInt64(1)
		case "false":
			v.SetInt64(0)
		default:
			if _, ok := v.SetString(fields[i], 10); !ok {
				rec["note"] = "could not parse result " + fields[i]
				return rec
			}
		}
		pe.vars[c.Results[i].Name] = TV{Scalar{fv.litFor(v, results.At(i).Type())}, results.At(i).Type()}
	}
	if c.PanicWhen != nil {
		pw := pe.evalBool(c.PanicWhen)
		if concreteFalse(Not(pw)) {
			rec["reproduced"] = true
			rec["verdict"] = "the real function returns normally on an input for which the contract promises a panic"
			return rec
		}
	}
	for i, e := range c.Ensures {
		t := pe.evalBool(e)
		if t.IsFalse() || (!t.IsTrue() && concreteFalse(t)) {
			rec["reproduced"] = true
			rec["verdict"] = fmt.Sprintf("ensures #%d (%s) is false for the observed result of the real function", i+1, e.String())
			return rec
		}
	}
	rec["verdict"] = "the real function satisfies the contract on the model input (counterexample not reproduced)"
	return rec
}

func (fv *FV) litFor(v *big.Int, t types.Type) *Term {
	b := t.Underlying().(*types.Basic)
	if b.Info()&types.IsBoolean != 0 {
		return BoolLit(v.Sign() != 0)
	}
	if fv.l.mode == ModeBV {
		return BVLit(v, basicWidth(b))
	}
	return IntBig(v)
}

func lastLines(s string, n int) string {
	ls := strings.Split(strings.TrimRight(s, "\n"), "\n")
	if len(ls) > n {
		ls = ls[len(ls)-n:]
	}
	return strings.Join(ls, "\n")
}

// runOverlayTest injects an in-package test file via -overlay and runs it.
func runOverlayTest(P *Program, pkgPath, repo, testSrc, testName string) (string, error) {
	rel := strings.TrimPrefix(strings.TrimPrefix(pkgPath, repoModule), "/")
	dir := filepath.Join(repo, rel)
	tmp, err := os.MkdirTemp("", "gvcreplay")
	if err != nil {
		return "", err
	}
	defer os.RemoveAll(tmp)
	src := filepath.Join(tmp, "zz_gvc_replay_test.go")
	if err := os.WriteFile(src, []byte(testSrc), 0o644); err != nil {
		return "", err
	}
	ov := map[string]map[string]string{"Replace": {filepath.Join(dir, "zz_gvc_replay_test.go"): src}}
	if strings.Contains(P.Tags, "poll_opt") {
		empty := filepath.Join(tmp, "empty_test.go")
		os.WriteFile(empty, []byte("package netpoll_test\n"), 0o644)
		ov["Replace"][filepath.Join(repo, "pkg/netpoll/example_test.go")] = empty
	}
	ovData, _ := json.Marshal(ov)
	ovFile := filepath.Join(tmp, "overlay.json")
	os.WriteFile(ovFile, ovData, 0o644)
	ctx, cancel := context.WithTimeout(context.Background(), 180*time.Second)
	defer cancel()
	cmd := exec.CommandContext(ctx, "go", "test", "-overlay", ovFile, "-v", "-vet=off", "-count=1", "-timeout", "60s", "-tags", P.Tags, "-run", "^"+testName+"$", "./"+rel)
	cmd.Dir = repo
	cmd.Env = append(os.Environ(), "GOFLAGS=-mod=mod", "GOPROXY=off", "GOSUMDB=off", "GOTOOLCHAIN=local")
	var out bytes.Buffer
	cmd.Stdout = &out
	cmd.Stderr = &out
	err = cmd.Run()
	return out.String(), err
}
