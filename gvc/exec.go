package main

// Symbolic execution of go/ssa (naive form) generating proof obligations.

import (
	"fmt"
	"go/constant"
	"go/token"
	"go/types"
	"math/big"
	"regexp"
	"sort"
	"strings"

	"golang.org/x/tools/go/ssa"
)

var zeroBig = big.NewInt(0)

type Obligation struct {
	Func    string
	Kind    string
	Name    string
	Assump  []*Term
	Goal    *Term
	Pos     string
	Path    int
	Trivial bool
	Props   []string // property tags of the clause (empty: demanded by every check)
	// results
	Status string // discharged, failed-sat, failed-unknown
	Solver string
	Ms     int64
	Model  string
	Output string
}

type modLoc struct {
	kind        string // "cell", "fields", "mem", "ghost", "ghostidx", "allmem"
	addr        *Term  // cell address / struct ref / array ref
	sort        *Sort
	name        string // ghost name
	idx         *Term
	typ         types.Type
	lo          *Term // mem: index window [lo, hi) in backing-array coordinates
	hi          *Term
	guard       *Term                 // location is modified only if guard holds (nil: always)
	exceptFids  map[int]bool          // allexcept: field ids that stay unchanged
	exceptMaps  map[string]bool       // allexcept: map types (typeKey) that stay unchanged
	exceptGhost map[string]bool       // allexcept: ghost variables that stay unchanged
	fids        []int                 // each: affected field ids
	cond        func(obj *Term) *Term // each: membership condition (pre-state)
}

// exceptTarget says whether the cell address a is one of the protected (unchanged) cells of an allexcept location.
func exceptTarget(m modLoc, a *Term) *Term {
	if a.Op == "emb" && a.Args[1].Op == "int" {
		fid := a.Args[1].Int.Int64()
		if fid >= 100000 && a.Args[0].Op == "emb" {
			return exceptTarget(m, a.Args[0])
		}
		if m.exceptFids[int(fid)] {
			return True
		}
		return False
	}
	if a.Op == "obj" || a.Op == "nil" || a.Op == "elem" {
		return False
	}
	fld := mk("efld", IntSort, a)
	par := mk("eparent", RefSort, a)
	var fs []*Term
	for f := range m.exceptFids {
		fs = append(fs, Eq(fld, IntLit(int64(f))), And(Ge(fld, IntLit(100000)), Eq(mk("efld", IntSort, par), IntLit(int64(f)))))
	}
	return And(mk("isemb", BoolSort, a), Or(fs...))
}

// eachTarget says whether the cell address a belongs to the "each" location m (a may be a bound variable).
func eachTarget(m modLoc, a *Term) *Term {
	if a.Op == "emb" {
		f := a.Args[1]
		if f.Op == "int" {
			fid := f.Int.Int64()
			if fid >= 100000 && a.Args[0].Op == "emb" {
				return eachTarget(m, a.Args[0])
			}
			for _, x := range m.fids {
				if int64(x) == fid {
					return m.cond(a.Args[0])
				}
			}
			return False
		}
	}
	if a.Op == "obj" || a.Op == "elem" || a.Op == "nil" {
		return False
	}
	// generic (symbolic address)
	isEmb := mk("isemb", BoolSort, a)
	fld := mk("efld", IntSort, a)
	par := mk("eparent", RefSort, a)
	sub := And(Ge(fld, IntLit(100000)), mk("isemb", BoolSort, par))
	owner := Ite(sub, mk("eparent", RefSort, par), par)
	fid := Ite(sub, mk("efld", IntSort, par), fld)
	var fs []*Term
	for _, x := range m.fids {
		fs = append(fs, Eq(fid, IntLit(int64(x))))
	}
	return And(isEmb, Or(fs...), m.cond(owner))
}

type State struct {
	pc      []*Term
	heap    *Heap
	ghost   map[string]*Term
	wm      *Term
	frameWM *Term
	mods    []modLoc
	modsAny bool    // no frame restriction (inlined callee of unrestricted caller)
	locals  []*Term // refs of function-local heap allocations
	priv    []*Term // those of them no callee can reach (see allocPrivate)
	events  []string
	// loops entered whose contract has its own modifies clause: inside them only that frame may be written
	loopFrames []loopFrame
}

type loopFrame struct {
	li       *loopInfo
	outer    []modLoc
	outerAny bool
}

func (s *State) clone() *State {
	n := &State{heap: s.heap.clone(), wm: s.wm, frameWM: s.frameWM, mods: s.mods, modsAny: s.modsAny}
	n.loopFrames = append([]loopFrame(nil), s.loopFrames...)
	n.pc = append([]*Term(nil), s.pc...)
	n.locals = append([]*Term(nil), s.locals...)
	n.priv = append([]*Term(nil), s.priv...)
	n.events = append([]string(nil), s.events...)
	n.ghost = make(map[string]*Term, len(s.ghost))
	for k, v := range s.ghost {
		n.ghost[k] = v
	}
	return n
}

func (s *State) assume(t *Term) {
	if t.IsTrue() {
		return
	}
	if t.Op == "and" {
		for _, a := range t.Args {
			s.assume(a)
		}
		return
	}
	if t.Op == "=>" {
		// distribute over conjunctions and flatten nested implications, so that every quantified fact
		// becomes its own (guarded) assumption
		a, b := t.Args[0], t.Args[1]
		if b.Op == "and" {
			for _, c := range b.Args {
				s.assume(Implies(a, c))
			}
			return
		}
		if b.Op == "=>" {
			s.assume(Implies(And(a, b.Args[0]), b.Args[1]))
			return
		}
	}
	for i := len(s.pc) - 1; i >= 0 && i >= len(s.pc)-400; i-- {
		if s.pc[i] == t {
			return
		}
	}
	s.pc = append(s.pc, t)
}

type deferred struct {
	call *ssa.CallCommon
	fn   Value
	args []Value
	pos  token.Pos
}

type Frame struct {
	fn       *ssa.Function
	regs     map[ssa.Value]Value
	cells    map[*ssa.Alloc]Value
	heapLocs map[*ssa.Alloc]*Term
	defers   []deferred
	depth    int
	variants map[*ssa.BasicBlock]*Term
	top      bool
}

func (f *Frame) clone() *Frame {
	n := &Frame{fn: f.fn, depth: f.depth, top: f.top}
	n.regs = make(map[ssa.Value]Value, len(f.regs))
	for k, v := range f.regs {
		n.regs[k] = v
	}
	n.cells = make(map[*ssa.Alloc]Value, len(f.cells))
	for k, v := range f.cells {
		n.cells[k] = v
	}
	n.heapLocs = make(map[*ssa.Alloc]*Term, len(f.heapLocs))
	for k, v := range f.heapLocs {
		n.heapLocs[k] = v
	}
	n.variants = make(map[*ssa.BasicBlock]*Term, len(f.variants))
	for k, v := range f.variants {
		n.variants[k] = v
	}
	n.defers = append([]deferred(nil), f.defers...)
	return n
}

type Outcome struct {
	st       *State
	results  []Value
	panicked bool
	panicPos token.Pos
	panicIn  ssa.Instruction
}

type loopInfo struct {
	head     *ssa.BasicBlock
	ordinal  int
	blocks   map[*ssa.BasicBlock]bool
	backPred map[*ssa.BasicBlock]bool
}

// cellAddr marks a non-escaping local variable.
type cellAddr struct{ a *ssa.Alloc }

type FV struct {
	P              *Program
	fn             *ssa.Function
	c              *Contract
	l              layout
	pkgPath        string
	name           string
	obls           []*Obligation
	nfresh         int
	loops          map[*ssa.BasicBlock]*loopInfo
	entry          *State
	entryEnv       map[string]TV
	ordinals       map[string]map[ssa.Instruction]int
	paths          int
	trusted        map[string]bool
	inlined        map[string]bool
	errs           []string
	pathNo         int
	pow2Used       bool
	maxPaths       int
	sentinel       map[string]int
	extra          []string
	used           map[string]bool
	paramFirst     []int
	touched        map[string]bool // heap arrays written anywhere in the function (from the first pass)
	eqHeap         *Heap
	lets           map[string]TV
	divmemo        map[[2]int][2]*Term
	divlist        []divRec
	entryRefAxioms bool
	side           []*Term // type-invariant facts collected while evaluating specifications
}

func (fv *FV) flushSide(st *State) {
	for _, t := range fv.side {
		st.assume(t)
	}
	fv.side = nil
}

type execError struct{ msg string }

func (fv *FV) fail(format string, args ...interface{}) {
	panic(execError{fmt.Sprintf(format, args...)})
}

func sanitize(s string) string {
	var sb strings.Builder
	for _, c := range s {
		switch {
		case c >= 'a' && c <= 'z', c >= 'A' && c <= 'Z', c >= '0' && c <= '9', c == '_', c == '.', c == '!', c == '$':
			sb.WriteRune(c)
		default:
			sb.WriteRune('_')
		}
	}
	return sb.String()
}

func (fv *FV) fresh(prefix string, s *Sort) *Term {
	fv.nfresh++
	return Var(fmt.Sprintf("%s!%d", sanitize(prefix), fv.nfresh), s)
}

func (fv *FV) pos(p token.Pos) string {
	if !p.IsValid() {
		return ""
	}
	ps := fv.P.Fset.Position(p)
	return fmt.Sprintf("%s:%d", strings.TrimPrefix(ps.Filename, fv.P.RepoDir+"/"), ps.Line)
}

// oblige records a proof obligation on the current path.
func (fv *FV) oblige(st *State, kind string, goal *Term, pos token.Pos) {
	fv.flushSide(st)
	name := fv.name + " / " + kind
	o := &Obligation{Func: fv.name, Kind: kind, Name: name, Goal: goal, Pos: fv.pos(pos), Path: fv.pathNo}
	if goal.IsTrue() {
		o.Trivial = true
		o.Status = "discharged"
		o.Solver = "syntactic"
	} else {
		o.Assump = append([]*Term(nil), st.pc...)
	}
	fv.obls = append(fv.obls, o)
}

// ordinal numbers instructions of one kind in source order within the function being verified.
func (fv *FV) ordinal(kind string, in ssa.Instruction) int {
	m := fv.ordinals[kind]
	if m == nil {
		m = map[ssa.Instruction]int{}
		fv.ordinals[kind] = m
	}
	if n, ok := m[in]; ok {
		return n
	}
	n := len(m) + 1
	m[in] = n
	return n
}

// ---------------------------------------------------------------- type assumptions

func (fv *FV) intRange(t types.Type) (lo, hi *big.Int) {
	b := t.Underlying().(*types.Basic)
	w := uint(basicWidth(b))
	if b.Info()&types.IsUnsigned != 0 {
		return big.NewInt(0), new(big.Int).Sub(new(big.Int).Lsh(big.NewInt(1), w), big.NewInt(1))
	}
	h := new(big.Int).Lsh(big.NewInt(1), w-1)
	return new(big.Int).Neg(h), new(big.Int).Sub(h, big.NewInt(1))
}

const maxSliceCap = 1 << 48

// assumeType adds the type invariant of v:t to the state.
func (fv *FV) assumeType(st *State, v Value, t types.Type) {
	switch x := v.(type) {
	case Scalar:
		if isInteger(t) && fv.l.mode == ModeInt {
			lo, hi := fv.intRange(t)
			st.assume(And(Le(IntBig(lo), x.T), Le(x.T, IntBig(hi))))
		}
		if x.T.Sort == RefSort {
			st.assume(Lt(RootID(x.T), st.wm))
		}
	case SliceV:
		if fv.l.mode == ModeInt {
			st.assume(And(Le(IntLit(0), x.Off), Le(IntLit(0), x.Len), Le(x.Len, x.Cap), Le(x.Cap, IntLit(maxSliceCap)), Le(x.Off, IntLit(maxSliceCap))))
			st.assume(Implies(Eq(x.Arr, NilRef), And(Eq(x.Cap, IntLit(0)), Eq(x.Off, IntLit(0)))))
		} else {
			w := x.Len.Sort.Width
			mx := BVLit(big.NewInt(maxSliceCap), w)
			st.assume(And(BVCmp("bvule", x.Len, x.Cap), BVCmp("bvule", x.Cap, mx), BVCmp("bvule", x.Off, mx)))
		}
		st.assume(Lt(RootID(x.Arr), st.wm))
	case IfaceV:
		st.assume(Lt(RootID(x.Ref), st.wm))
		st.assume(Le(IntLit(0), x.Typ))
		st.assume(Implies(Eq(x.Typ, IntLit(0)), Eq(x.Ref, NilRef)))
	case StructV:
		for i, f := range x.Fields {
			fv.assumeType(st, f, x.Type.Field(i).Type())
		}
	}
}

// freshValue creates an unconstrained symbolic value of type t.
func (fv *FV) freshValue(prefix string, t types.Type) Value {
	switch u := t.Underlying().(type) {
	case *types.Struct:
		sv := StructV{Type: u}
		for i := 0; i < u.NumFields(); i++ {
			sv.Fields = append(sv.Fields, fv.freshValue(prefix+"."+u.Field(i).Name(), u.Field(i).Type()))
		}
		return sv
	case *types.Array:
		cs := fv.l.comps(u.Elem())
		if cs == nil {
			fv.fail("fresh value of array with composite elements: %s", t)
		}
		av := ArrayV{Len: u.Len()}
		for _, c := range cs {
			av.Elems = append(av.Elems, fv.fresh(prefix+"_"+c.name, ArraySort(fv.l.idxSort(), c.sort)))
		}
		return av
	case *types.Tuple:
		var tv TupleV
		for i := 0; i < u.Len(); i++ {
			tv = append(tv, fv.freshValue(fmt.Sprintf("%s.%d", prefix, i), u.At(i).Type()))
		}
		return tv
	}
	cs := fv.l.comps(t)
	if cs == nil {
		fv.fail("fresh value of unsupported type %s", t)
	}
	ts := make([]*Term, len(cs))
	for k, c := range cs {
		n := prefix
		if c.name != "" {
			n += "." + c.name
		}
		ts[k] = fv.fresh(n, c.sort)
	}
	return fv.l.fromComps(t, ts)
}

// ---------------------------------------------------------------- CFG helpers

func (fv *FV) findLoops(fn *ssa.Function) map[*ssa.BasicBlock]*loopInfo {
	loops := map[*ssa.BasicBlock]*loopInfo{}
	for _, b := range fn.Blocks {
		for _, s := range b.Succs {
			if s.Dominates(b) {
				li := loops[s]
				if li == nil {
					li = &loopInfo{head: s, blocks: map[*ssa.BasicBlock]bool{s: true}, backPred: map[*ssa.BasicBlock]bool{}}
					loops[s] = li
				}
				li.backPred[b] = true
				// natural loop body
				var stack []*ssa.BasicBlock
				if !li.blocks[b] {
					li.blocks[b] = true
					stack = append(stack, b)
				}
				for len(stack) > 0 {
					x := stack[len(stack)-1]
					stack = stack[:len(stack)-1]
					for _, p := range x.Preds {
						if !li.blocks[p] {
							li.blocks[p] = true
							stack = append(stack, p)
						}
					}
				}
			}
		}
	}
	var heads []*ssa.BasicBlock
	for h := range loops {
		heads = append(heads, h)
	}
	sort.Slice(heads, func(i, j int) bool { return heads[i].Index < heads[j].Index })
	for i, h := range heads {
		loops[h].ordinal = i + 1
	}
	return loops
}

func allocEscapes(a *ssa.Alloc) bool {
	if a.Heap {
		// "new" allocs: may still be only loaded/stored, but conservatively treat as heap objects
	}
	switch a.Type().(*types.Pointer).Elem().Underlying().(type) {
	case *types.Struct, *types.Array:
		return true
	}
	for _, r := range *a.Referrers() {
		switch x := r.(type) {
		case *ssa.Store:
			if x.Addr != a {
				return true
			}
		case *ssa.UnOp:
			if x.Op != token.MUL {
				return true
			}
		case *ssa.DebugRef:
		default:
			return true
		}
	}
	return false
}

// allocPrivate: the variable is only loaded and stored, directly or by closures of the same function that are
// deferred or called in place: no callee under contract can reach it, so coarse callee frames leave it alone.
func allocPrivate(a *ssa.Alloc) bool {
	switch a.Type().(*types.Pointer).Elem().Underlying().(type) {
	case *types.Struct, *types.Array:
		return false
	}
	var okRefs func(refs []ssa.Instruction, self ssa.Value, depth int) bool
	okRefs = func(refs []ssa.Instruction, self ssa.Value, depth int) bool {
		for _, r := range refs {
			switch x := r.(type) {
			case *ssa.Store:
				if x.Addr != self || x.Val == self {
					return false
				}
			case *ssa.UnOp:
				if x.Op != token.MUL {
					return false
				}
			case *ssa.DebugRef:
			case *ssa.MakeClosure:
				if depth > 2 {
					return false
				}
				// the closure itself must only be deferred or called in place; a closure that escapes (e.g. is handed to
				// a callee) is fine too as long as it, and whatever it captures the variable into, only ever loads it:
				// then no callee can change the variable either
				inPlace := true
				for _, cr := range *x.Referrers() {
					switch y := cr.(type) {
					case *ssa.Defer:
						if y.Call.Value != x {
							inPlace = false
						}
					case *ssa.Call:
						if y.Call.Value != x {
							inPlace = false
						}
					case *ssa.DebugRef:
					default:
						inPlace = false
					}
				}
				fn := x.Fn.(*ssa.Function)
				for i, b := range x.Bindings {
					if b == self {
						fvv := fn.FreeVars[i]
						if inPlace {
							if !okRefs(*fvv.Referrers(), fvv, depth+1) {
								return false
							}
						} else if !readOnlyRefs(fvv, 0) {
							return false
						}
					}
				}
			default:
				return false
			}
		}
		return true
	}
	return okRefs(*a.Referrers(), a, 0)
}

// readOnlyRefs: the captured variable (a free variable of a closure) is only loaded, by this closure and by the closures
// it is captured into in turn.
func readOnlyRefs(v ssa.Value, depth int) bool {
	if depth > 3 {
		return false
	}
	for _, r := range *v.Referrers() {
		switch x := r.(type) {
		case *ssa.UnOp:
			if x.Op != token.MUL {
				return false
			}
		case *ssa.DebugRef:
		case *ssa.MakeClosure:
			fn := x.Fn.(*ssa.Function)
			for i, b := range x.Bindings {
				if b == v && !readOnlyRefs(fn.FreeVars[i], depth+1) {
					return false
				}
			}
		default:
			return false
		}
	}
	return true
}

// ---------------------------------------------------------------- running a function body

func (fv *FV) newFrame(fn *ssa.Function, depth int, top bool) *Frame {
	return &Frame{fn: fn, regs: map[ssa.Value]Value{}, cells: map[*ssa.Alloc]Value{}, heapLocs: map[*ssa.Alloc]*Term{}, variants: map[*ssa.BasicBlock]*Term{}, depth: depth, top: top}
}

func (fv *FV) execBody(fr *Frame, st *State, args []Value, bindings []Value) []Outcome {
	fn := fr.fn
	if len(fn.Blocks) == 0 {
		fv.fail("function %s has no body and no contract", fn.String())
	}
	for i, p := range fn.Params {
		fr.regs[p] = args[i]
	}
	for i, f := range fn.FreeVars {
		fr.regs[f] = bindings[i]
	}
	return fv.runBlock(fr, st, fn.Blocks[0], nil)
}

func (fv *FV) runBlock(fr *Frame, st *State, b *ssa.BasicBlock, pred *ssa.BasicBlock) []Outcome {
	// leaving a loop that has its own modifies clause restores the enclosing frame
	for len(st.loopFrames) > 0 {
		lf := st.loopFrames[len(st.loopFrames)-1]
		if lf.li.head.Parent() != b.Parent() || lf.li.blocks[b] {
			break
		}
		st.mods, st.modsAny = lf.outer, lf.outerAny
		st.loopFrames = st.loopFrames[:len(st.loopFrames)-1]
	}
	if li := fv.loopFor(fr, b); li != nil {
		if pred != nil && li.backPred[pred] {
			fv.loopBack(fr, st, li)
			return nil
		}
		if fv.loopEnterStops(fr, st, li) {
			return nil
		}
	}
	return fv.runInstrs(fr, st, b, b.Instrs, pred)
}

func (fv *FV) loopEnterStops(fr *Frame, st *State, li *loopInfo) (stopped bool) {
	defer func() {
		if r := recover(); r != nil {
			if _, ok := r.(stopPath); ok {
				stopped = true
				return
			}
			panic(r)
		}
	}()
	fv.loopEnter(fr, st, li)
	return false
}

// runInstrs continues a block from a given instruction suffix.
func (fv *FV) runInstrs(fr *Frame, st *State, b *ssa.BasicBlock, instrs []ssa.Instruction, pred *ssa.BasicBlock) []Outcome {
	for idx, in := range instrs {
		switch x := in.(type) {
		case *ssa.Phi:
			found := false
			for i, p := range b.Preds {
				if p == pred {
					fr.regs[x] = fv.val(fr, x.Edges[i])
					found = true
					break
				}
			}
			if !found {
				fv.fail("phi without matching predecessor in %s", fr.fn.Name())
			}
		case *ssa.If:
			cond := fv.val(fr, x.Cond).(Scalar).T
			var outs []Outcome
			if !cond.IsFalse() {
				st1, fr1 := st, fr
				if !cond.IsTrue() {
					st1, fr1 = st.clone(), fr.clone()
					st1.assume(cond)
				}
				outs = append(outs, fv.runBlock(fr1, st1, b.Succs[0], b)...)
			}
			if !cond.IsTrue() {
				if !cond.IsFalse() {
					st.assume(Not(cond))
				}
				outs = append(outs, fv.runBlock(fr, st, b.Succs[1], b)...)
			}
			return outs
		case *ssa.Jump:
			return fv.runBlock(fr, st, b.Succs[0], b)
		case *ssa.Return:
			var res []Value
			for _, r := range x.Results {
				res = append(res, fv.val(fr, r))
			}
			fv.flushSide(st)
			fv.pathDone()
			return []Outcome{{st: st, results: res}}
		case *ssa.Panic:
			fv.pathDone()
			return []Outcome{{st: st, panicked: true, panicPos: x.Pos(), panicIn: x}}
		case *ssa.Call:
			outs := fv.execCall(fr, st, x)
			if outs == nil {
				return nil
			}
			if len(outs) == 1 && !outs[0].panicked && outs[0].st == st {
				fr.regs[x] = wrapResults(outs[0].results)
				continue
			}
			var all []Outcome
			rest := instrs[idx+1:]
			for _, o := range outs {
				if o.panicked {
					all = append(all, o)
					continue
				}
				fr2 := fr.clone()
				fr2.regs[x] = wrapResults(o.results)
				all = append(all, fv.runInstrs(fr2, o.st, b, rest, pred)...)
			}
			return all
		case *ssa.RunDefers:
			if len(fr.defers) > 0 {
				outs := fv.runDefers(fr, st)
				var all []Outcome
				rest := instrs[idx+1:]
				for _, o := range outs {
					if o.panicked {
						all = append(all, o)
						continue
					}
					fr2 := fr.clone()
					fr2.defers = nil
					all = append(all, fv.runInstrs(fr2, o.st, b, rest, pred)...)
				}
				return all
			}
		default:
			fv.execInstr(fr, st, in)
		}
	}
	fv.fail("block %d of %s fell through", b.Index, fr.fn.Name())
	return nil
}

func wrapResults(rs []Value) Value {
	switch len(rs) {
	case 0:
		return TupleV(nil)
	case 1:
		return rs[0]
	}
	return TupleV(rs)
}

func (fv *FV) pathDone() {
	fv.paths++
	fv.pathNo++
	if fv.paths > fv.maxPaths {
		fv.fail("path limit %d exceeded", fv.maxPaths)
	}
}

func (fv *FV) loopFor(fr *Frame, b *ssa.BasicBlock) *loopInfo {
	if !fr.top {
		// inlined callees must be loop-free (checked at inline time)
		return nil
	}
	return fv.loops[b]
}

// ---------------------------------------------------------------- values of SSA operands

func (fv *FV) val(fr *Frame, v ssa.Value) Value {
	if r, ok := fr.regs[v]; ok {
		return r
	}
	switch x := v.(type) {
	case *ssa.Const:
		return fv.constVal(x)
	case *ssa.Global:
		return Scalar{fv.globalAddr(x)}
	case *ssa.Function:
		return FuncV{x}
	case *ssa.Builtin:
		return FuncV{nil}
	}
	fv.fail("no value for %s (%T) in %s", v.Name(), v, fr.fn.Name())
	return nil
}

var globalIDs = map[string]int{}
var globalNames = map[int]string{}

func (fv *FV) globalAddr(g *ssa.Global) *Term {
	key := g.Pkg.Pkg.Path() + "." + g.Name()
	id, ok := globalIDs[key]
	if !ok {
		id = len(globalIDs) + 1
		globalIDs[key] = id
		globalNames[id] = key
	}
	return Obj(IntLit(int64(-1000 - id)))
}

var typeIDs = map[string]int{}
var typeIDNames = map[int]string{}

var byteRe = regexp.MustCompile(`\bbyte\b`)
var runeRe = regexp.MustCompile(`\brune\b`)

func canonType(t types.Type) types.Type {
	switch x := t.(type) {
	case *types.Alias:
		return canonType(types.Unalias(x))
	case *types.Pointer:
		return types.NewPointer(canonType(x.Elem()))
	case *types.Slice:
		return types.NewSlice(canonType(x.Elem()))
	}
	return t
}

func typeID(t types.Type) int {
	t = canonType(t)
	k := runeRe.ReplaceAllString(byteRe.ReplaceAllString(t.String(), "uint8"), "int32")
	if id, ok := typeIDs[k]; ok {
		return id
	}
	id := len(typeIDs) + 1
	typeIDs[k] = id
	typeIDNames[id] = k
	return id
}

func (fv *FV) intConst(v *big.Int, t types.Type) *Term {
	if fv.l.mode == ModeBV {
		b, ok := t.Underlying().(*types.Basic)
		w := 64
		if ok {
			w = basicWidth(b)
		}
		return BVLit(v, w)
	}
	return IntBig(v)
}

func (fv *FV) idx(v int64) *Term {
	if fv.l.mode == ModeBV {
		return BVLit(big.NewInt(v), 64)
	}
	return IntLit(v)
}

func (fv *FV) constVal(c *ssa.Const) Value {
	t := c.Type()
	if c.Value == nil {
		return fv.l.zero(t)
	}
	switch u := t.Underlying().(type) {
	case *types.Basic:
		switch {
		case u.Info()&types.IsBoolean != 0:
			return Scalar{BoolLit(constant.BoolVal(c.Value))}
		case u.Info()&types.IsInteger != 0:
			v, ok := new(big.Int).SetString(c.Value.ExactString(), 10)
			if !ok {
				fv.fail("bad int constant %s", c.Value)
			}
			return Scalar{fv.intConst(v, t)}
		case u.Info()&types.IsString != 0:
			s := constant.StringVal(c.Value)
			return fv.stringConst(s)
		case u.Info()&types.IsFloat != 0:
			return Scalar{App("floatconst_"+sanitize(c.Value.ExactString()), IntSort)}
		}
	}
	fv.fail("unsupported constant %s : %s", c.Value, t)
	return nil
}

var stringIDs = map[string]int{}

func (fv *FV) stringConst(s string) Value {
	id, ok := stringIDs[s]
	if !ok {
		id = len(stringIDs) + 1
		stringIDs[s] = id
	}
	arr := Obj(IntLit(int64(-1000000 - id)))
	n := fv.idx(int64(len(s)))
	v := SliceV{Arr: arr, Off: fv.idx(0), Len: n, Cap: n}
	if fv.l.mode == ModeInt {
		// the text of a constant is immutable: its content id is a fixed, constant-specific number
		row := Select(Var("M_Int_0_0", ArraySort(RefSort, ArraySort(IntSort, IntSort))), arr)
		fv.side = append(fv.side, Eq(App("content", IntSort, row, v.Off, v.Len), IntLit(int64(-id))))
		// the bytes of a short constant are known
		if len(s) <= 16 {
			for k := 0; k < len(s); k++ {
				fv.side = append(fv.side, Eq(Select(row, IntLit(int64(k))), IntLit(int64(s[k]))))
			}
		}
	}
	return v
}

// strContent is the abstract identity of the byte string held by s in the current heap.
func (fv *FV) strContent(s SliceV) *Term {
	h := fv.eqHeap
	if h == nil {
		h = fv.entry.heap
	}
	elemSort := fv.l.intSort(types.Typ[types.Uint8])
	return App("content", IntSort, h.elemRow(elemSort, 0, s.Arr), s.Off, s.Len)
}

// ---------------------------------------------------------------- instructions

func (fv *FV) execInstr(fr *Frame, st *State, in ssa.Instruction) {
	switch x := in.(type) {
	case *ssa.DebugRef:
	case *ssa.Alloc:
		elemT := x.Type().(*types.Pointer).Elem()
		if !allocEscapes(x) && !x.Heap {
			fr.cells[x] = fv.l.zero(elemT)
			fr.regs[x] = cellAddr{x}
			return
		}
		ref := Obj(st.wm)
		st.wm = Add(st.wm, IntLit(1))
		fv.storeZero(st, elemT, ref)
		fr.regs[x] = Scalar{ref}
		fr.heapLocs[x] = ref
		st.locals = append(st.locals, ref)
		if allocPrivate(x) {
			st.priv = append(st.priv, ref)
		}
	case *ssa.Store:
		addr := fv.val(fr, x.Addr)
		v := fv.val(fr, x.Val)
		if ca, ok := addr.(cellAddr); ok {
			fr.cells[ca.a] = v
			return
		}
		fv.storeAt(st, addr.(Scalar).T, x.Val.Type(), v, x, x.Pos())
	case *ssa.UnOp:
		fr.regs[x] = fv.unop(fr, st, x)
	case *ssa.BinOp:
		fr.regs[x] = fv.binop(st, x.Op, fv.val(fr, x.X), fv.val(fr, x.Y), x.X.Type(), x.Y.Type(), x.Type(), x, x.Pos())
	case *ssa.FieldAddr:
		base := fv.val(fr, x.X).(Scalar).T
		fv.nilCheck(st, base, x, x.Pos())
		pt := x.X.Type().Underlying().(*types.Pointer).Elem()
		stt := pt.Underlying().(*types.Struct)
		fr.regs[x] = Scalar{Emb(base, fieldID(stt, typeKey(pt), x.Field))}
	case *ssa.Field:
		sv := fv.val(fr, x.X).(StructV)
		fr.regs[x] = sv.Fields[x.Field]
	case *ssa.IndexAddr:
		fr.regs[x] = Scalar{fv.indexAddr(fr, st, x)}
	case *ssa.Index:
		fr.regs[x] = fv.index(fr, st, x)
	case *ssa.Slice:
		fr.regs[x] = fv.slice(fr, st, x)
	case *ssa.Extract:
		fr.regs[x] = fv.val(fr, x.Tuple).(TupleV)[x.Index]
	case *ssa.MakeInterface:
		fr.regs[x] = fv.makeInterface(st, fv.val(fr, x.X), x.X.Type())
	case *ssa.ChangeInterface:
		fr.regs[x] = fv.val(fr, x.X)
	case *ssa.ChangeType:
		fr.regs[x] = fv.val(fr, x.X)
	case *ssa.Convert:
		fr.regs[x] = fv.convert(st, fv.val(fr, x.X), x.X.Type(), x.Type(), x.Pos())
	case *ssa.TypeAssert:
		fr.regs[x] = fv.typeAssert(fr, st, x)
	case *ssa.MakeSlice:
		fr.regs[x] = fv.makeSlice(fr, st, x)
	case *ssa.Range:
		// only the creation of the iterator is modelled (an opaque value); a map/string range loop itself needs
		// ssa.Next, which is not supported: contracts end such paths with `stop at loop N`
		fr.regs[x] = Scalar{fv.fresh("rangeiter", RefSort)}
	case *ssa.MakeClosure:
		var bs []Value
		for _, b := range x.Bindings {
			bs = append(bs, fv.val(fr, b))
		}
		fr.regs[x] = ClosureV{Fn: x.Fn.(*ssa.Function), Bindings: bs}
	case *ssa.Defer:
		d := deferred{call: &x.Call, pos: x.Pos()}
		if !x.Call.IsInvoke() {
			d.fn = fv.val(fr, x.Call.Value)
		} else {
			d.fn = fv.val(fr, x.Call.Value)
		}
		for _, a := range x.Call.Args {
			d.args = append(d.args, fv.val(fr, a))
		}
		fr.defers = append(fr.defers, d)
	case *ssa.MakeMap:
		ref := Obj(st.wm)
		st.wm = Add(st.wm, IntLit(1))
		fv.mapInit(st, x.Type(), ref)
		fr.regs[x] = Scalar{ref}
	case *ssa.MapUpdate:
		fv.mapUpdate(fr, st, x)
	case *ssa.Lookup:
		fr.regs[x] = fv.lookup(fr, st, x)
	case *ssa.MakeChan:
		ref := Obj(st.wm)
		st.wm = Add(st.wm, IntLit(1))
		fr.regs[x] = Scalar{ref}
	case *ssa.Send:
		fv.chanSend(fr, st, x)
	case *ssa.Select:
		// select over receive cases only: any case may be the one taken (blocking: one of them is), the received values
		// are unconstrained values of their types. Over-approximates every scheduling of the communication partners.
		n := len(x.States)
		idx := fv.fresh("selidx", IntSort)
		lo := 0
		if !x.Blocking {
			lo = -1
		}
		st.assume(And(Ge(idx, IntLit(int64(lo))), Lt(idx, IntLit(int64(n)))))
		tup := TupleV{Scalar{idx}, Scalar{fv.fresh("recvok", BoolSort)}}
		for _, s := range x.States {
			if s.Dir != types.RecvOnly {
				fv.fail("select with a send case is outside the subset (%s)", fv.pos(x.Pos()))
			}
			ch := fv.val(fr, s.Chan)
			_ = ch
			et := s.Chan.Type().Underlying().(*types.Chan).Elem()
			v := fv.freshValue("recv", et)
			fv.assumeType(st, v, et)
			tup = append(tup, v)
		}
		fr.regs[x] = tup
	case *ssa.Go:
		st.events = append(st.events, "go "+x.Call.String())
	default:
		fv.fail("unsupported SSA instruction %T (%s) in %s at %s", in, in.String(), fr.fn.Name(), fv.pos(in.Pos()))
	}
}

func (fv *FV) storeZero(st *State, t types.Type, addr *Term) {
	switch u := t.Underlying().(type) {
	case *types.Struct:
		owner := typeKey(t)
		for i := 0; i < u.NumFields(); i++ {
			fv.storeZero(st, u.Field(i).Type(), Emb(addr, fieldID(u, owner, i)))
		}
	case *types.Array:
		cs := fv.l.comps(u.Elem())
		if cs == nil {
			return // composite elements: left unconstrained (over-approximation of the zero value)
		}
		for k, c := range cs {
			st.heap.setElemRow(c.sort, k, addr, constArray(ArraySort(fv.l.idxSort(), c.sort), fv.l.zeroOf(c.sort)))
		}
	default:
		st.heap.store(t, addr, fv.l.zero(t))
	}
}

func (fv *FV) nilCheck(st *State, ref *Term, in ssa.Instruction, pos token.Pos) {
	g := Neq(ref, NilRef)
	if g.IsTrue() {
		return
	}
	fv.oblige(st, fmt.Sprintf("nil-deref #%d", fv.ordinal("nil-deref", in)), g, pos)
	st.assume(g)
}

// frameAlts builds the disjunction of reasons why a write is permitted by the modifies clause.
// For element writes addr is the array object and [lo, hi) the index range written.
func (fv *FV) frameAlts(st *State, addr *Term, isElem bool, lo, hi *Term) *Term {
	if st.modsAny {
		return True
	}
	root := addr
	for root.Op == "emb" || root.Op == "elem" {
		root = root.Args[0]
	}
	for _, l := range st.locals {
		if root == l || sameTerm(root, l) {
			return True
		}
	}
	// unexported package-level state of another package is not observable by this package's callers:
	// it need not be listed in modifies clauses (documented in DESIGN.md, trusted base)
	if root.Op == "obj" && root.Args[0].Op == "int" {
		if name, ok := globalNames[int(-root.Args[0].Int.Int64()-1000)]; ok {
			k := strings.LastIndex(name, ".")
			if k > 0 && name[:k] != fv.pkgPath && !token.IsExported(name[k+1:]) {
				fv.trusted["frame exemption: unexported package-level variable "+name+" (not observable outside its package)"] = true
				return True
			}
		}
	}
	var alts []*Term
	alts = append(alts, Ge(RootID(addr), st.frameWM))
	for _, m := range st.mods {
		switch m.kind {
		case "cell", "gcell":
			if !isElem {
				if m.guard != nil {
					alts = append(alts, And(m.guard, Eq(addr, m.addr)))
				} else {
					alts = append(alts, Eq(addr, m.addr))
				}
			}
		case "fields":
			if !isElem {
				p := addr
				for p.Op == "emb" {
					p = p.Args[0]
					if m.guard != nil {
						alts = append(alts, And(m.guard, Eq(p, m.addr)))
					} else {
						alts = append(alts, Eq(p, m.addr))
					}
				}
			}
		case "each":
			if !isElem {
				alts = append(alts, eachTarget(m, addr))
			}
		case "map":
			if !isElem && addr.Op == "emb" && addr.Args[1].Op == "int" && addr.Args[1].Int.Int64() == -2 {
				alts = append(alts, Eq(addr.Args[0], m.addr))
			}
		case "allexcept":
			ok := True
			if !isElem {
				ok = Not(exceptTarget(m, addr))
			}
			if m.guard != nil {
				ok = And(m.guard, ok)
			}
			alts = append(alts, ok)
		case "mem":
			if isElem {
				c := And(Eq(addr, m.addr), fv.idxLe(m.lo, lo), fv.idxLe(hi, m.hi))
				if m.guard != nil {
					c = And(m.guard, c)
				}
				alts = append(alts, c)
			} else if addr.Op == "elem" {
				alts = append(alts, And(Eq(addr.Args[0], m.addr), fv.idxLe(m.lo, addr.Args[1]), fv.idxLt(addr.Args[1], m.hi)))
			}
		}
	}
	return Or(alts...)
}

func (fv *FV) frameCheck(st *State, addr *Term, isElem bool, lo, hi *Term, in ssa.Instruction, pos token.Pos) {
	g := fv.frameAlts(st, addr, isElem, lo, hi)
	if g.IsTrue() {
		return
	}
	n := 0
	if in != nil {
		n = fv.ordinal("frame", in)
	}
	fv.oblige(st, fmt.Sprintf("frame #%d", n), g, pos)
}

func (fv *FV) storeAt(st *State, addr *Term, t types.Type, v Value, in ssa.Instruction, pos token.Pos) {
	switch addr.Op {
	case "elem":
		if fv.l.comps(t) != nil {
			fv.frameCheck(st, addr.Args[0], true, addr.Args[1], Add(addr.Args[1], fv.idx(1)), in, pos)
			st.heap.storeElem(t, addr.Args[0], addr.Args[1], v)
			return
		}
		fv.frameCheck(st, addr, false, nil, nil, in, pos)
		st.heap.store(t, addr, v)
	case "emb", "obj":
		if at, isArr := t.Underlying().(*types.Array); isArr {
			fv.frameCheck(st, addr, true, fv.idx(0), fv.idx(at.Len()), in, pos)
		} else {
			fv.frameCheck(st, addr, false, nil, nil, in, pos)
		}
		st.heap.store(t, addr, v)
	default:
		fv.fail("store through opaque pointer %s in %s at %s", addr, fv.name, fv.pos(pos))
	}
}

func (fv *FV) loadAt(st *State, addr *Term, t types.Type, pos token.Pos) Value {
	var v Value
	switch addr.Op {
	case "elem":
		if fv.l.comps(t) != nil {
			v = st.heap.loadElem(t, addr.Args[0], addr.Args[1])
		} else {
			v = st.heap.load(t, addr)
		}
	case "emb", "obj":
		v = st.heap.load(t, addr)
	default:
		fv.fail("load through opaque pointer %s in %s at %s", addr, fv.name, fv.pos(pos))
	}
	fv.assumeLoaded(st, v, t)
	return v
}

// assumeLoaded adds type invariants for values read from memory (cheap ones only).
func (fv *FV) assumeLoaded(st *State, v Value, t types.Type) {
	switch x := v.(type) {
	case Scalar:
		if x.T.Op == "select" || x.T.Op == "var" {
			fv.assumeType(st, v, t)
		}
	case SliceV:
		if x.Len.Op == "select" {
			fv.assumeType(st, v, t)
		}
	case IfaceV:
		if x.Typ.Op == "select" {
			fv.assumeType(st, v, t)
		}
	case StructV:
		for i, f := range x.Fields {
			fv.assumeLoaded(st, f, x.Type.Field(i).Type())
		}
	}
}

func (fv *FV) unop(fr *Frame, st *State, x *ssa.UnOp) Value {
	switch x.Op {
	case token.MUL:
		a := fv.val(fr, x.X)
		if ca, ok := a.(cellAddr); ok {
			return fr.cells[ca.a]
		}
		addr := a.(Scalar).T
		if g, ok := x.X.(*ssa.Global); ok {
			if v, ok := fv.sentinelGlobal(st, g); ok {
				return v
			}
		}
		if _, isAlloc := x.X.(*ssa.Alloc); !isAlloc {
			if _, isFA := x.X.(*ssa.FieldAddr); !isFA {
				if _, isIA := x.X.(*ssa.IndexAddr); !isIA {
					if _, isG := x.X.(*ssa.Global); !isG {
						fv.nilCheck(st, addr, x, x.Pos())
					}
				}
			}
		}
		return fv.loadAt(st, addr, x.Type(), x.Pos())
	case token.NOT:
		return Scalar{Not(fv.val(fr, x.X).(Scalar).T)}
	case token.SUB:
		v := fv.val(fr, x.X).(Scalar).T
		if fv.l.mode == ModeBV {
			return Scalar{Neg(v)}
		}
		r := Neg(v)
		if !isUnsigned(x.Type()) {
			lo, hi := fv.intRange(x.Type())
			fv.oblige(st, fmt.Sprintf("no-overflow #%d", fv.ordinal("no-overflow", x)), And(Le(IntBig(lo), r), Le(r, IntBig(hi))), x.Pos())
		} else {
			r = fv.wrap(r, x.Type())
		}
		return Scalar{r}
	case token.XOR:
		v := fv.val(fr, x.X).(Scalar).T
		if fv.l.mode == ModeBV {
			return Scalar{mk("bvnot", v.Sort, v)}
		}
		if isUnsigned(x.Type()) {
			_, hi := fv.intRange(x.Type())
			return Scalar{Sub(IntBig(hi), v)}
		}
		return Scalar{Sub(IntLit(-1), v)}
	case token.ARROW:
		t := x.Type()
		if x.CommaOk {
			t = x.Type().(*types.Tuple).At(0).Type()
		}
		v := fv.freshValue("recv", t)
		fv.assumeType(st, v, t)
		if x.CommaOk {
			return TupleV{v, Scalar{fv.fresh("recvok", BoolSort)}}
		}
		return v
	}
	fv.fail("unsupported unary op %s", x.Op)
	return nil
}

// wrap reduces a mathematical integer into the range of type t (two's complement).
func (fv *FV) wrap(v *Term, t types.Type) *Term {
	lo, hi := fv.intRange(t)
	if v.Op == "int" {
		m := new(big.Int).Add(new(big.Int).Sub(hi, lo), big.NewInt(1))
		r := new(big.Int).Sub(v.Int, lo)
		r.Mod(r, m)
		r.Add(r, lo)
		return IntBig(r)
	}
	m := new(big.Int).Add(new(big.Int).Sub(hi, lo), big.NewInt(1))
	if lo.Sign() == 0 {
		return EMod(v, IntBig(m))
	}
	return Add(EMod(Sub(v, IntBig(lo)), IntBig(m)), IntBig(lo))
}

func tdiv(x, y *Term) *Term {
	// Go truncated division on mathematical integers
	if y.Op == "int" && y.Int.Sign() > 0 {
		return Ite(Ge(x, IntLit(0)), EDiv(x, y), Neg(EDiv(Neg(x), y)))
	}
	return Ite(Ge(x, IntLit(0)),
		Ite(Gt(y, IntLit(0)), EDiv(x, y), Neg(EDiv(x, Neg(y)))),
		Ite(Gt(y, IntLit(0)), Neg(EDiv(Neg(x), y)), EDiv(Neg(x), Neg(y))))
}

// divmod introduces quotient and remainder of Go's truncated division by a symbolic divisor as fresh
// constants with their defining (nonlinear) equation plus linear consequences that spare the solver
// nonlinear reasoning in the common cases (small quotients).
func (fv *FV) divmod(st *State, x, y *Term) (q, r *Term) {
	key := [2]int{x.id, y.id}
	if fv.divmemo == nil {
		fv.divmemo = map[[2]int][2]*Term{}
	}
	if m, ok := fv.divmemo[key]; ok {
		q, r = m[0], m[1]
	} else {
		q = fv.fresh("quo", IntSort)
		r = fv.fresh("rem", IntSort)
		fv.divmemo[key] = [2]*Term{q, r}
	}
	zero := IntLit(0)
	absy := Ite(Ge(y, zero), y, Neg(y))
	st.assume(Eq(x, Add(Mul(y, q), r)))
	st.assume(Implies(Ge(x, zero), And(Le(zero, r), Lt(r, absy))))
	st.assume(Implies(Le(x, zero), And(Le(r, zero), Lt(Neg(absy), r))))
	// hints (consequences of the definition)
	pos := And(Ge(x, zero), Gt(y, zero))
	st.assume(Implies(And(pos, Lt(x, y)), And(Eq(q, zero), Eq(r, x))))
	st.assume(Implies(And(pos, Le(y, x), Lt(x, Add(y, y))), And(Eq(q, IntLit(1)), Eq(r, Sub(x, y)))))
	st.assume(Implies(pos, And(Le(zero, q), Le(q, x))))
	// successor lemma against earlier divisions by the same divisor (sound arithmetic fact):
	// x2 == x1 + 1  ==>  (r1 + 1 < y ? (q2, r2) == (q1, r1 + 1) : (q2, r2) == (q1 + 1, 0))
	for _, p := range fv.divlist {
		if p.y != y || p.x == x {
			continue
		}
		succ := func(x1, q1, r1, x2, q2, r2 *Term) *Term {
			return Implies(And(Ge(x1, zero), Gt(y, zero), Eq(x2, Add(x1, IntLit(1)))),
				And(Implies(Lt(Add(r1, IntLit(1)), y), And(Eq(q2, q1), Eq(r2, Add(r1, IntLit(1))))),
					Implies(Eq(Add(r1, IntLit(1)), y), And(Eq(q2, Add(q1, IntLit(1))), Eq(r2, zero)))))
		}
		st.assume(succ(p.x, p.q, p.r, x, q, r))
		st.assume(succ(x, q, r, p.x, p.q, p.r))
	}
	if _, seen := fv.divmemo[key]; seen {
		dup := false
		for _, p := range fv.divlist {
			if p.x == x && p.y == y {
				dup = true
			}
		}
		if !dup {
			fv.divlist = append(fv.divlist, divRec{x, y, q, r})
		}
	}
	return q, r
}

type divRec struct{ x, y, q, r *Term }

func (fv *FV) pow2(k *Term) *Term {
	if k.Op == "int" && k.Int.IsInt64() && k.Int.Int64() >= 0 && k.Int.Int64() < 200 {
		return IntBig(new(big.Int).Lsh(big.NewInt(1), uint(k.Int.Int64())))
	}
	fv.pow2Used = true
	p := App("pow2", IntSort, k)
	// range facts about 2^k (sound consequences of the definition; they spare the solver case splits)
	for _, b := range []int64{8, 16, 31, 32, 48, 62} {
		if k.hasBound {
			break
		}
		fv.side = append(fv.side, Implies(And(Le(IntLit(0), k), Le(k, IntLit(b))), And(Le(IntLit(1), p), Le(p, IntBig(new(big.Int).Lsh(big.NewInt(1), uint(b)))))))
	}
	return p
}

func pow2Axioms() []*Term {
	var as []*Term
	for k := 0; k <= 64; k++ {
		p := IntBig(new(big.Int).Lsh(big.NewInt(1), uint(k)))
		as = append(as, Eq(App("pow2", IntSort, IntLit(int64(k))), p))
		as = append(as, App("ispow2", BoolSort, p))
	}
	x := BoundVar("x!p2", IntSort)
	y := BoundVar("y!p2", IntSort)
	as = append(as, Forall([]*Term{x}, Implies(App("ispow2", BoolSort, x), Gt(x, IntLit(0)))))
	mono := Forall([]*Term{x, y}, Implies(And(Le(IntLit(0), x), Le(x, y)), Le(App("pow2", IntSort, x), App("pow2", IntSort, y))))
	mono.Pats = [][]*Term{{App("pow2", IntSort, x), App("pow2", IntSort, y)}}
	as = append(as, mono)
	step := Forall([]*Term{x}, Implies(Le(IntLit(0), x), And(Ge(App("pow2", IntSort, x), IntLit(1)), App("ispow2", BoolSort, App("pow2", IntSort, x)))))
	step.Pats = [][]*Term{{App("pow2", IntSort, x)}}
	as = append(as, step)
	return as
}

func (fv *FV) binop(st *State, op token.Token, xv, yv Value, xt, yt, rt types.Type, in ssa.Instruction, pos token.Pos) Value {
	switch op {
	case token.EQL, token.NEQ:
		fv.eqHeap = st.heap
		e := fv.valuesEqual(xv, yv, xt)
		if op == token.NEQ {
			e = Not(e)
		}
		return Scalar{e}
	}
	x, okx := xv.(Scalar)
	y, oky := yv.(Scalar)
	if !okx || !oky {
		if xs, ok := xv.(SliceV); ok && op == token.ADD {
			// string concatenation: uninterpreted fresh string
			ys := yv.(SliceV)
			arr := fv.fresh("strcat", RefSort)
			n := Add(xs.Len, ys.Len)
			return SliceV{Arr: arr, Off: fv.idx(0), Len: n, Cap: n}
		}
		if _, ok := xv.(SliceV); ok {
			// string comparison < etc: uninterpreted
			return Scalar{fv.fresh("strcmp", BoolSort)}
		}
		fv.fail("binop %s on non-scalars %T %T", op, xv, yv)
	}
	a, b := x.T, y.T
	if a.Sort == BoolSort {
		switch op {
		case token.AND, token.LAND:
			return Scalar{And(a, b)}
		case token.OR, token.LOR:
			return Scalar{Or(a, b)}
		}
	}
	if fv.l.mode == ModeBV {
		return Scalar{fv.bvBinop(op, a, b, xt, yt)}
	}
	unsigned := isUnsigned(rt)
	arith := func(r *Term) Value {
		if unsigned {
			return Scalar{fv.wrap(r, rt)}
		}
		lo, hi := fv.intRange(rt)
		inr := And(Le(IntBig(lo), r), Le(r, IntBig(hi)))
		if fv.c != nil && fv.c.ArithUnchecked != "" {
			fv.trusted["machine arithmetic treated as mathematical in "+fv.name+": "+fv.c.ArithUnchecked] = true
			st.assume(inr)
			return Scalar{r}
		}
		fv.oblige(st, fmt.Sprintf("no-overflow #%d", fv.ordinal("no-overflow", in)), inr, pos)
		return Scalar{r}
	}
	switch op {
	case token.ADD:
		return arith(Add(a, b))
	case token.SUB:
		return arith(Sub(a, b))
	case token.MUL:
		return arith(Mul(a, b))
	case token.QUO, token.REM:
		nz := Neq(b, IntLit(0))
		fv.oblige(st, fmt.Sprintf("div-zero #%d", fv.ordinal("div-zero", in)), nz, pos)
		st.assume(nz)
		if b.Op == "int" && b.Int.Sign() > 0 {
			if op == token.QUO {
				if unsigned {
					return Scalar{EDiv(a, b)}
				}
				return arith(tdiv(a, b))
			}
			if unsigned {
				return Scalar{EMod(a, b)}
			}
			return Scalar{Sub(a, Mul(b, tdiv(a, b)))}
		}
		q, r := fv.divmod(st, a, b)
		if op == token.QUO {
			if unsigned {
				return Scalar{q}
			}
			return arith(q)
		}
		return Scalar{r}
	case token.LSS:
		return Scalar{Lt(a, b)}
	case token.LEQ:
		return Scalar{Le(a, b)}
	case token.GTR:
		return Scalar{Gt(a, b)}
	case token.GEQ:
		return Scalar{Ge(a, b)}
	case token.SHL:
		if !isUnsigned(yt) {
			fv.oblige(st, fmt.Sprintf("shift-count #%d", fv.ordinal("shift-count", in)), Ge(b, IntLit(0)), pos)
		}
		w := int64(basicWidth(rt.Underlying().(*types.Basic)))
		r := Mul(a, fv.pow2(b))
		if b.Op != "int" {
			exact := Mul(a, fv.pow2(b))
			lo, hi := fv.intRange(rt)
			fits := And(Lt(b, IntLit(w)), Le(IntBig(lo), exact), Le(exact, IntBig(hi)))
			return Scalar{Ite(fits, exact, fv.wrap(Ite(Ge(b, IntLit(w)), IntLit(0), exact), rt))}
		} else if b.Int.Int64() >= w {
			r = IntLit(0)
		}
		return Scalar{fv.wrap(r, rt)}
	case token.SHR:
		if !isUnsigned(yt) {
			fv.oblige(st, fmt.Sprintf("shift-count #%d", fv.ordinal("shift-count", in)), Ge(b, IntLit(0)), pos)
		}
		w := int64(basicWidth(rt.Underlying().(*types.Basic)))
		if b.Op == "int" {
			if b.Int.Int64() >= w {
				return Scalar{Ite(Ge(a, IntLit(0)), IntLit(0), IntLit(-1))}
			}
			return Scalar{EDiv(a, fv.pow2(b))}
		}
		return Scalar{Ite(Ge(b, IntLit(w)), Ite(Ge(a, IntLit(0)), IntLit(0), IntLit(-1)), EDiv(a, fv.pow2(b)))}
	case token.AND:
		if r := intBitFold("&", a, b); r != nil {
			return Scalar{r}
		}
		// x & (2^k - 1) == x mod 2^k for non-negative x
		if b.Op == "int" {
			m := new(big.Int).Add(b.Int, big.NewInt(1))
			if b.Int.Sign() >= 0 && new(big.Int).And(m, b.Int).Sign() == 0 {
				if unsigned {
					return Scalar{EMod(a, IntBig(m))}
				}
				return Scalar{EMod(a, IntBig(m))} // two's complement: also correct for negative a
			}
		}
		r := App("bvand", IntSort, a, b)
		if unsigned {
			st.assume(And(Le(IntLit(0), r), Le(r, a), Le(r, b)))
		}
		return Scalar{r}
	case token.OR:
		if r := intBitFold("|", a, b); r != nil {
			return Scalar{r}
		}
		r := App("bvor", IntSort, a, b)
		if unsigned {
			st.assume(And(Ge(r, a), Ge(r, b), Le(r, Add(a, b))))
		}
		return Scalar{r}
	case token.XOR:
		if r := intBitFold("^", a, b); r != nil {
			return Scalar{r}
		}
		r := App("bvxor", IntSort, a, b)
		if unsigned {
			st.assume(And(Le(IntLit(0), r), Le(r, Add(a, b))))
		}
		return Scalar{r}
	case token.AND_NOT:
		if r := intBitFold("&^", a, b); r != nil {
			return Scalar{r}
		}
		r := App("bvandnot", IntSort, a, b)
		if unsigned {
			st.assume(And(Le(IntLit(0), r), Le(r, a)))
		}
		return Scalar{r}
	}
	fv.fail("unsupported binary op %s", op)
	return nil
}

func (fv *FV) bvBinop(op token.Token, a, b *Term, xt, yt types.Type) *Term {
	signed := !isUnsigned(xt)
	// shifts: widths may differ
	if op == token.SHL || op == token.SHR {
		w := a.Sort.Width
		bw := b.Sort.Width
		var sh *Term
		switch {
		case bw == w:
			sh = b
		case bw < w:
			sh = BVZeroExt(w-bw, b)
		default:
			// larger shift count: saturate
			big := BVCmp("bvuge", b, BVLit(bigInt(int64(w)), bw))
			sh = Ite(big, BVLit(bigInt(int64(w)), w), BVExtract(w-1, 0, b))
		}
		if op == token.SHL {
			return BVOp("bvshl", a, sh)
		}
		if signed {
			return BVOp("bvashr", a, sh)
		}
		return BVOp("bvlshr", a, sh)
	}
	switch op {
	case token.ADD:
		return BVOp("bvadd", a, b)
	case token.SUB:
		return BVOp("bvsub", a, b)
	case token.MUL:
		return BVOp("bvmul", a, b)
	case token.QUO:
		if signed {
			return BVOp("bvsdiv", a, b)
		}
		return BVOp("bvudiv", a, b)
	case token.REM:
		if signed {
			return BVOp("bvsrem", a, b)
		}
		return BVOp("bvurem", a, b)
	case token.AND:
		return BVOp("bvand", a, b)
	case token.OR:
		return BVOp("bvor", a, b)
	case token.XOR:
		return BVOp("bvxor", a, b)
	case token.AND_NOT:
		return BVOp("bvand", a, mk("bvnot", b.Sort, b))
	case token.LSS:
		if signed {
			return BVCmp("bvslt", a, b)
		}
		return BVCmp("bvult", a, b)
	case token.LEQ:
		if signed {
			return BVCmp("bvsle", a, b)
		}
		return BVCmp("bvule", a, b)
	case token.GTR:
		if signed {
			return BVCmp("bvslt", b, a)
		}
		return BVCmp("bvult", b, a)
	case token.GEQ:
		if signed {
			return BVCmp("bvsle", b, a)
		}
		return BVCmp("bvule", b, a)
	}
	fv.fail("unsupported bv binary op %s", op)
	return nil
}

func bigInt(v int64) *big.Int { return big.NewInt(v) }

func (fv *FV) valuesEqual(xv, yv Value, t types.Type) *Term {
	switch x := xv.(type) {
	case Scalar:
		switch y := yv.(type) {
		case Scalar:
			return Eq(x.T, y.T)
		case IfaceV:
			return And(Eq(x.T, y.Ref))
		}
	case IfaceV:
		switch y := yv.(type) {
		case IfaceV:
			return And(Eq(x.Typ, y.Typ), Eq(x.Ref, y.Ref))
		case Scalar: // comparison with nil
			return Eq(x.Typ, IntLit(0))
		}
	case SliceV:
		switch y := yv.(type) {
		case SliceV:
			if b, ok := t.Underlying().(*types.Basic); ok && b.Info()&types.IsString != 0 {
				// string equality: same backing text => equal; otherwise uninterpreted but reflexive
				same := And(Eq(x.Arr, y.Arr), Eq(x.Off, y.Off), Eq(x.Len, y.Len))
				if same.IsTrue() {
					return True
				}
				if (y.Len.Op == "int" && y.Len.Int.Sign() == 0) || (x.Len.Op == "int" && x.Len.Int.Sign() == 0) {
					return Eq(x.Len, y.Len) // comparison with the empty string
				}
				// equal iff same length and same abstract content id (string constants have distinct ids)
				return Or(same, And(Eq(x.Len, y.Len), Eq(fv.strContent(x), fv.strContent(y))))
			}
			// slice compared with nil
			if y.Arr.Op == "nil" {
				return Eq(x.Arr, NilRef)
			}
			if x.Arr.Op == "nil" {
				return Eq(y.Arr, NilRef)
			}
		case Scalar:
			return Eq(x.Arr, NilRef)
		}
	case StructV:
		y := yv.(StructV)
		var cs []*Term
		for i := range x.Fields {
			cs = append(cs, fv.valuesEqual(x.Fields[i], y.Fields[i], x.Type.Field(i).Type()))
		}
		return And(cs...)
	case ArrayV:
		y := yv.(ArrayV)
		var cs []*Term
		for k := range x.Elems {
			for i := int64(0); i < x.Len && i < 64; i++ {
				cs = append(cs, Eq(Select(x.Elems[k], fv.idx(i)), Select(y.Elems[k], fv.idx(i))))
			}
		}
		return And(cs...)
	case FuncV, ClosureV:
		return False // compared against nil
	}
	fv.fail("unsupported equality between %T and %T", xv, yv)
	return nil
}

func (fv *FV) indexAddr(fr *Frame, st *State, x *ssa.IndexAddr) *Term {
	idx := fv.toIdx(fv.val(fr, x.Index).(Scalar).T, x.Index.Type())
	switch t := x.X.Type().Underlying().(type) {
	case *types.Slice:
		s := fv.val(fr, x.X).(SliceV)
		fv.boundsCheck(st, idx, s.Len, x, x.Pos())
		return ElemRef(s.Arr, fv.addIdx(s.Off, idx))
	case *types.Pointer:
		arr := t.Elem().Underlying().(*types.Array)
		base := fv.val(fr, x.X).(Scalar).T
		fv.nilCheck(st, base, x, x.Pos())
		fv.boundsCheck(st, idx, fv.idx(arr.Len()), x, x.Pos())
		return ElemRef(base, idx)
	}
	fv.fail("IndexAddr on %s", x.X.Type())
	return nil
}

func (fv *FV) toIdx(t *Term, typ types.Type) *Term {
	if fv.l.mode == ModeInt {
		return t
	}
	w := t.Sort.Width
	if w == 64 {
		return t
	}
	if isUnsigned(typ) {
		return BVZeroExt(64-w, t)
	}
	return BVSignExt(64-w, t)
}

func (fv *FV) addIdx(a, b *Term) *Term {
	return Add(a, b)
}

func (fv *FV) idxLt(a, b *Term) *Term {
	if fv.l.mode == ModeInt {
		return Lt(a, b)
	}
	return BVCmp("bvslt", a, b)
}

func (fv *FV) idxLe(a, b *Term) *Term {
	if fv.l.mode == ModeInt {
		return Le(a, b)
	}
	return BVCmp("bvsle", a, b)
}

func (fv *FV) boundsCheck(st *State, idx, n *Term, in ssa.Instruction, pos token.Pos) {
	g := And(fv.idxLe(fv.idx(0), idx), fv.idxLt(idx, n))
	fv.oblige(st, fmt.Sprintf("index-in-range #%d", fv.ordinal("index-in-range", in)), g, pos)
	st.assume(g)
}

func (fv *FV) index(fr *Frame, st *State, x *ssa.Index) Value {
	idx := fv.toIdx(fv.val(fr, x.Index).(Scalar).T, x.Index.Type())
	switch v := fv.val(fr, x.X).(type) {
	case ArrayV:
		fv.boundsCheck(st, idx, fv.idx(v.Len), x, x.Pos())
		ts := make([]*Term, len(v.Elems))
		for k := range v.Elems {
			ts[k] = Select(v.Elems[k], idx)
		}
		return fv.l.fromComps(x.Type(), ts)
	case SliceV: // string
		fv.boundsCheck(st, idx, v.Len, x, x.Pos())
		r := st.heap.loadElem(x.Type(), v.Arr, fv.addIdx(v.Off, idx))
		fv.assumeType(st, r, x.Type())
		return r
	}
	fv.fail("Index on %s", x.X.Type())
	return nil
}

func (fv *FV) slice(fr *Frame, st *State, x *ssa.Slice) Value {
	var base SliceV
	isString := false
	switch t := x.X.Type().Underlying().(type) {
	case *types.Slice:
		base = fv.val(fr, x.X).(SliceV)
	case *types.Basic:
		base = fv.val(fr, x.X).(SliceV)
		isString = true
	case *types.Pointer:
		arr := t.Elem().Underlying().(*types.Array)
		ref := fv.val(fr, x.X).(Scalar).T
		fv.nilCheck(st, ref, x, x.Pos())
		n := fv.idx(arr.Len())
		base = SliceV{Arr: ref, Off: fv.idx(0), Len: n, Cap: n}
	default:
		fv.fail("Slice on %s", x.X.Type())
	}
	lo := fv.idx(0)
	if x.Low != nil {
		lo = fv.toIdx(fv.val(fr, x.Low).(Scalar).T, x.Low.Type())
	}
	limit := base.Cap
	if isString {
		limit = base.Len
	}
	hi := base.Len
	if x.High != nil {
		hi = fv.toIdx(fv.val(fr, x.High).(Scalar).T, x.High.Type())
	}
	mx := base.Cap
	if x.Max != nil {
		mx = fv.toIdx(fv.val(fr, x.Max).(Scalar).T, x.Max.Type())
	}
	var g *Term
	if x.Max != nil {
		g = And(fv.idxLe(fv.idx(0), lo), fv.idxLe(lo, hi), fv.idxLe(hi, mx), fv.idxLe(mx, base.Cap))
	} else {
		g = And(fv.idxLe(fv.idx(0), lo), fv.idxLe(lo, hi), fv.idxLe(hi, limit))
	}
	fv.oblige(st, fmt.Sprintf("slice-bounds #%d", fv.ordinal("slice-bounds", x)), g, x.Pos())
	st.assume(g)
	res := SliceV{Arr: base.Arr, Off: fv.addIdx(base.Off, lo), Len: Sub(hi, lo), Cap: Sub(mx, lo)}
	if isString {
		res.Cap = res.Len
	}
	if st2, ok := x.X.Type().Underlying().(*types.Slice); ok && fv.l.mode == ModeInt {
		if _, inner := st2.Elem().Underlying().(*types.Slice); inner {
			// lemmas about the abstract concatenation of a prefix of a [][]byte (sound facts about sums / concatenations)
			h := st.heap
			arrRow := h.elemRow(RefSort, 0, base.Arr)
			offRow := h.elemRow(IntSort, 1, base.Arr)
			lenRow := h.elemRow(IntSort, 2, base.Arr)
			_, M0 := h.elemArr(IntSort, 0)
			sb := App("seglen", IntSort, lenRow, base.Off, base.Len)
			sr := App("seglen", IntSort, lenRow, res.Off, res.Len)
			inLen := Le(hi, base.Len)
			st.assume(Implies(inLen, And(Le(IntLit(0), sr), Le(sr, sb))))
			fv.nfresh++
			y := BoundVar(fmt.Sprintf("y!sl%d", fv.nfresh), IntSort)
			q := Forall([]*Term{y}, Implies(And(Le(IntLit(0), y), Lt(y, sr)),
				Eq(App("segbyte", IntSort, M0, arrRow, offRow, lenRow, res.Off, res.Len, y), App("segbyte", IntSort, M0, arrRow, offRow, lenRow, base.Off, base.Len, y))))
			if q.Op == "forall" {
				q.Pats = [][]*Term{{App("segbyte", IntSort, M0, arrRow, offRow, lenRow, res.Off, res.Len, y)}}
			}
			st.assume(Implies(And(inLen, Eq(lo, IntLit(0))), q))
		}
	}
	return res
}

func (fv *FV) makeSlice(fr *Frame, st *State, x *ssa.MakeSlice) Value {
	n := fv.toIdx(fv.val(fr, x.Len).(Scalar).T, x.Len.Type())
	c := fv.toIdx(fv.val(fr, x.Cap).(Scalar).T, x.Cap.Type())
	g := And(fv.idxLe(fv.idx(0), n), fv.idxLe(n, c))
	fv.oblige(st, fmt.Sprintf("makeslice-args #%d", fv.ordinal("makeslice", x)), g, x.Pos())
	st.assume(g)
	if fv.l.mode == ModeInt {
		st.assume(Le(c, IntLit(maxSliceCap))) // allocation succeeded
	}
	return fv.allocSlice(st, x.Type().Underlying().(*types.Slice).Elem(), n, c, true)
}

func (fv *FV) allocSlice(st *State, elem types.Type, n, c *Term, zeroed bool) SliceV {
	ref := Obj(st.wm)
	st.wm = Add(st.wm, IntLit(1))
	if zeroed {
		if cs := fv.l.comps(elem); cs != nil {
			for k, cc := range cs {
				st.heap.setElemRow(cc.sort, k, ref, constArray(ArraySort(fv.l.idxSort(), cc.sort), fv.l.zeroOf(cc.sort)))
			}
		}
	}
	return SliceV{Arr: ref, Off: fv.idx(0), Len: n, Cap: c}
}

func (fv *FV) makeInterface(st *State, v Value, t types.Type) Value {
	tid := IntLit(int64(typeID(t)))
	switch x := v.(type) {
	case Scalar:
		if x.T.Sort == RefSort {
			return IfaceV{Ref: x.T, Typ: tid}
		}
		if x.T.Sort == IntSort {
			// boxed integer: injective encoding
			return IfaceV{Ref: ElemRef(Obj(IntLit(int64(-500000-typeID(t)))), x.T), Typ: tid}
		}
		if x.T.Sort.Kind == SBV {
			return IfaceV{Ref: fv.fresh("box", RefSort), Typ: tid}
		}
		return IfaceV{Ref: fv.fresh("box", RefSort), Typ: tid}
	case IfaceV:
		return x
	case SliceV:
		// boxed string or slice: identity by backing array
		return IfaceV{Ref: ElemRef(x.Arr, x.Off), Typ: tid}
	case StructV, ArrayV:
		return IfaceV{Ref: fv.fresh("box", RefSort), Typ: tid}
	case FuncV, ClosureV:
		return IfaceV{Ref: fv.fresh("boxfn", RefSort), Typ: tid}
	}
	fv.fail("MakeInterface of %T", v)
	return nil
}

func (fv *FV) typeAssert(fr *Frame, st *State, x *ssa.TypeAssert) Value {
	iv := fv.val(fr, x.X).(IfaceV)
	var ok *Term
	var res Value
	if types.IsInterface(x.AssertedType) {
		// interface-to-interface: success unknown unless nil
		okv := fv.fresh("assertok", BoolSort)
		st.assume(Implies(okv, Neq(iv.Typ, IntLit(0))))
		ok = okv
		res = iv
	} else {
		ok = Eq(iv.Typ, IntLit(int64(typeID(x.AssertedType))))
		switch x.AssertedType.Underlying().(type) {
		case *types.Pointer:
			res = Scalar{iv.Ref}
		default:
			if isInteger(x.AssertedType) && fv.l.mode == ModeInt {
				// unbox integer
				res = Scalar{mk("lidx", IntSort, iv.Ref)}
			} else {
				res = fv.freshValue("unboxed", x.AssertedType)
				fv.assumeType(st, res, x.AssertedType)
			}
		}
	}
	if x.CommaOk {
		zero := fv.l.zero(x.AssertedType)
		return TupleV{fv.iteValue(ok, res, zero), Scalar{ok}}
	}
	fv.oblige(st, fmt.Sprintf("type-assert #%d", fv.ordinal("type-assert", x)), ok, x.Pos())
	st.assume(ok)
	return res
}

func (fv *FV) iteValue(c *Term, a, b Value) Value {
	switch x := a.(type) {
	case Scalar:
		return Scalar{Ite(c, x.T, b.(Scalar).T)}
	case SliceV:
		y := b.(SliceV)
		return SliceV{Ite(c, x.Arr, y.Arr), Ite(c, x.Off, y.Off), Ite(c, x.Len, y.Len), Ite(c, x.Cap, y.Cap)}
	case IfaceV:
		y := b.(IfaceV)
		return IfaceV{Ite(c, x.Ref, y.Ref), Ite(c, x.Typ, y.Typ)}
	case StructV:
		y := b.(StructV)
		r := StructV{Type: x.Type}
		for i := range x.Fields {
			r.Fields = append(r.Fields, fv.iteValue(c, x.Fields[i], y.Fields[i]))
		}
		return r
	case ArrayV:
		y := b.(ArrayV)
		r := ArrayV{Len: x.Len}
		for k := range x.Elems {
			r.Elems = append(r.Elems, Ite(c, x.Elems[k], y.Elems[k]))
		}
		return r
	}
	fv.fail("iteValue on %T", a)
	return nil
}

func (fv *FV) convert(st *State, v Value, from, to types.Type, pos token.Pos) Value {
	fb, fok := from.Underlying().(*types.Basic)
	tb, tok := to.Underlying().(*types.Basic)
	if fok && tok && fb.Info()&types.IsInteger != 0 && tb.Info()&types.IsInteger != 0 {
		t := v.(Scalar).T
		if fv.l.mode == ModeBV {
			fw, tw := basicWidth(fb), basicWidth(tb)
			switch {
			case tw == fw:
				return Scalar{t}
			case tw < fw:
				return Scalar{BVExtract(tw-1, 0, t)}
			default:
				if fb.Info()&types.IsUnsigned != 0 {
					return Scalar{BVZeroExt(tw-fw, t)}
				}
				return Scalar{BVSignExt(tw-fw, t)}
			}
		}
		flo, fhi := fv.intRange(from)
		tlo, thi := fv.intRange(to)
		if flo.Cmp(tlo) >= 0 && fhi.Cmp(thi) <= 0 {
			return Scalar{t}
		}
		return Scalar{fv.wrap(t, to)}
	}
	// string <-> []byte : fresh copy with equal contents
	_, fromSlice := from.Underlying().(*types.Slice)
	_, toSlice := to.Underlying().(*types.Slice)
	fromStr := fok && fb.Info()&types.IsString != 0
	toStr := tok && tb.Info()&types.IsString != 0
	if (fromStr && toSlice) || (fromSlice && toStr) {
		s := v.(SliceV)
		ref := Obj(st.wm)
		st.wm = Add(st.wm, IntLit(1))
		// contents: row of new array equals shifted view of the source
		elemSort := fv.l.intSort(types.Typ[types.Uint8])
		newRow := fv.fresh("convrow", ArraySort(fv.l.idxSort(), elemSort))
		k := BoundVar("k!c", fv.l.idxSort())
		srcRow := st.heap.elemRow(elemSort, 0, s.Arr)
		body := Implies(And(fv.idxLe(fv.idx(0), k), fv.idxLt(k, s.Len)), Eq(Select(newRow, k), Select(srcRow, fv.addIdx(s.Off, k))))
		st.assume(Forall([]*Term{k}, body))
		st.heap.setElemRow(elemSort, 0, ref, newRow)
		return SliceV{Arr: ref, Off: fv.idx(0), Len: s.Len, Cap: s.Len}
	}
	if fok && tok && fb.Info()&types.IsInteger != 0 && tb.Info()&types.IsFloat != 0 {
		return Scalar{App("int2float", IntSort, v.(Scalar).T)}
	}
	if fok && tok && fb.Info()&types.IsFloat != 0 && tb.Info()&types.IsInteger != 0 {
		r := fv.freshValue("float2int", to)
		fv.assumeType(st, r, to)
		return r
	}
	if fok && tok && fb.Info()&types.IsFloat != 0 && tb.Info()&types.IsFloat != 0 {
		return v
	}
	if fok && tok && fb.Info()&types.IsInteger != 0 && tb.Info()&types.IsString != 0 {
		r := fv.freshValue("int2str", to)
		fv.assumeType(st, r, to)
		return r
	}
	// pointer <-> unsafe.Pointer and other representation-preserving conversions
	if _, ok := v.(Scalar); ok {
		return v
	}
	fv.fail("unsupported conversion %s -> %s at %s", from, to, fv.pos(pos))
	return nil
}

// intBitFold gives an exact arithmetic term for a bit operator on mathematical integers (infinite two's complement)
// where one exists without bit-vectors: both operands literal -> the literal result; x & 2^k -> 2^k * ((x div 2^k) mod 2)
// (bit k of x; SMT div by a positive divisor is floor division, so this is also right for negative x). nil otherwise.
func intBitFold(op string, a, b *Term) *Term {
	if a.Op == "int" && b.Op == "int" {
		r := new(big.Int)
		switch op {
		case "&":
			r.And(a.Int, b.Int)
		case "|":
			r.Or(a.Int, b.Int)
		case "^":
			r.Xor(a.Int, b.Int)
		case "&^":
			r.AndNot(a.Int, b.Int)
		default:
			return nil
		}
		return IntBig(r)
	}
	if op == "&" {
		x, c := a, b
		if x.Op == "int" {
			x, c = b, a
		}
		if c.Op == "int" && c.Int.Sign() > 0 && new(big.Int).And(c.Int, new(big.Int).Sub(c.Int, big.NewInt(1))).Sign() == 0 {
			return Mul(c, EMod(EDiv(x, c), IntLit(2)))
		}
	}
	return nil
}
