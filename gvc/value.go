package main

// Symbolic values and the heap model.
//
// Heap: per-sort cell arrays H:<sort> : Array Ref <sort> addressed by Ref terms
// (emb(obj, fieldid) for struct fields, obj(id) for boxed locals/globals), and
// per-sort two-level element arrays M:<sort>#k : Array Ref (Array Idx <sort>) for
// slice/array storage (k = component index for multi-component elements).

import (
	"fmt"
	"go/types"
	"strings"

	"golang.org/x/tools/go/ssa"
)

type Value interface{}

type Scalar struct{ T *Term }

type SliceV struct{ Arr, Off, Len, Cap *Term } // also strings (Cap == Len)

type IfaceV struct{ Ref, Typ *Term }

type StructV struct {
	Type   *types.Struct
	Fields []Value
}

type ArrayV struct { // by-value array of scalar elements
	Elems []*Term // one SMT array per component of the element type
	Len   int64
}

type TupleV []Value

type ClosureV struct {
	Fn       *ssa.Function
	Bindings []Value
}

type FuncV struct{ Fn *ssa.Function }

// comp describes one scalar component of a (possibly composite) Go value.
type comp struct {
	sort *Sort
	name string
	tag  string // typed-memory tag: cells of different Go types live in different arrays
}

type Mode int

const (
	ModeInt Mode = iota
	ModeBV
)

type layout struct{ mode Mode }

func (l layout) intSort(t *types.Basic) *Sort {
	if l.mode == ModeInt {
		return IntSort
	}
	return BVSort(basicWidth(t))
}

func (l layout) idxSort() *Sort {
	if l.mode == ModeInt {
		return IntSort
	}
	return BVSort(64)
}

func basicWidth(t *types.Basic) int {
	switch t.Kind() {
	case types.Int8, types.Uint8:
		return 8
	case types.Int16, types.Uint16:
		return 16
	case types.Int32, types.Uint32:
		return 32
	default:
		return 64
	}
}

func isUnsigned(t types.Type) bool {
	b, ok := t.Underlying().(*types.Basic)
	return ok && b.Info()&types.IsUnsigned != 0
}

func isInteger(t types.Type) bool {
	b, ok := t.Underlying().(*types.Basic)
	return ok && b.Info()&types.IsInteger != 0
}

// comps returns the scalar components of a value of type t.
func (l layout) comps(t types.Type) []comp {
	switch u := t.Underlying().(type) {
	case *types.Basic:
		switch {
		case u.Info()&types.IsBoolean != 0:
			return []comp{{BoolSort, "", "bool"}}
		case u.Info()&types.IsInteger != 0:
			return []comp{{l.intSort(u), "", basicTag(u)}}
		case u.Info()&types.IsString != 0:
			return []comp{{RefSort, "arr", "str"}, {l.idxSort(), "off", "str"}, {l.idxSort(), "len", "str"}}
		case u.Kind() == types.UnsafePointer:
			return []comp{{RefSort, "", "uptr"}}
		case u.Kind() == types.UntypedNil:
			return []comp{{RefSort, "", "nil"}}
		case u.Info()&types.IsFloat != 0:
			return []comp{{IntSort, "float", "float"}}
		}
	case *types.Pointer:
		return []comp{{RefSort, "", "ptr_" + sanitize(typeKey(u.Elem()))}}
	case *types.Map:
		return []comp{{RefSort, "", "map"}}
	case *types.Chan, *types.Signature:
		return []comp{{RefSort, "", "ref"}}
	case *types.Slice:
		tg := "slice_" + sanitize(typeKey(u.Elem()))
		return []comp{{RefSort, "arr", tg}, {l.idxSort(), "off", tg}, {l.idxSort(), "len", tg}, {l.idxSort(), "cap", tg}}
	case *types.Interface:
		return []comp{{RefSort, "ref", "iface"}, {IntSort, "typ", "iface"}}
	}
	return nil
}

func basicTag(u *types.Basic) string {
	switch u.Kind() {
	case types.Int8:
		return "int8"
	case types.Int16:
		return "int16"
	case types.Int32:
		return "int32"
	case types.Int64:
		return "int64"
	case types.Uint8:
		return "uint8"
	case types.Uint16:
		return "uint16"
	case types.Uint32:
		return "uint32"
	case types.Uint64:
		return "uint64"
	case types.Uint:
		return "uint"
	case types.Uintptr:
		return "uintptr"
	}
	return "int"
}

// ---------------------------------------------------------------- field ids

var fieldIDs = map[string]int{}
var fieldNames = map[int]string{}

func fieldID(st *types.Struct, owner string, idx int) int {
	key := fmt.Sprintf("%s.%s", owner, st.Field(idx).Name())
	if id, ok := fieldIDs[key]; ok {
		return id
	}
	id := len(fieldIDs) + 1
	fieldIDs[key] = id
	fieldNames[id] = key
	return id
}

func typeKey(t types.Type) string {
	t = canonType(t)
	s := types.TypeString(t, func(p *types.Package) string { return p.Name() })
	return strings.ReplaceAll(s, " ", "")
}

// structOwner names a struct type for field-id purposes.
func structOwner(t types.Type) string {
	if p, ok := t.(*types.Pointer); ok {
		t = p.Elem()
	}
	return typeKey(t)
}

// subAddr gives the address of the k-th component of a multi-component value stored at addr.
func subAddr(addr *Term, k int) *Term {
	if k == 0 {
		return addr
	}
	return Emb(addr, 100000+k)
}

// ---------------------------------------------------------------- heap

type Heap struct {
	arrays map[string]*Term
	l      layout
}

func (h *Heap) clone() *Heap {
	n := &Heap{arrays: make(map[string]*Term, len(h.arrays)), l: h.l}
	for k, v := range h.arrays {
		n.arrays[k] = v
	}
	return n
}

func sortKey(s *Sort) string {
	switch s.Kind {
	case SBool:
		return "Bool"
	case SInt:
		return "Int"
	case SRef:
		return "Ref"
	case SBV:
		return fmt.Sprintf("BV%d", s.Width)
	}
	return "X"
}

var keySorts = map[string]*Sort{}
var touchedKeys = map[string]bool{}
var keyInit = map[string]*Term{} // initial arrays of map keys

func (h *Heap) cellArr(s *Sort, tag string) (string, *Term) {
	key := "H:" + sortKey(s) + ":" + tag
	keySorts[key] = s
	touchedKeys[key] = true
	if a, ok := h.arrays[key]; ok {
		return key, a
	}
	return key, Var("H_"+sortKey(s)+"_"+tag+"_0", ArraySort(RefSort, s))
}

func (h *Heap) cellArrByKey(key string) *Term {
	if a, ok := h.arrays[key]; ok {
		return a
	}
	parts := strings.SplitN(key, ":", 3)
	s := keySorts[key]
	return Var("H_"+parts[1]+"_"+parts[2]+"_0", ArraySort(RefSort, s))
}

func (h *Heap) elemArr(s *Sort, k int) (string, *Term) {
	key := fmt.Sprintf("M:%s#%d", sortKey(s), k)
	touchedKeys[key] = true
	if a, ok := h.arrays[key]; ok {
		return key, a
	}
	return key, Var(fmt.Sprintf("M_%s_%d_0", sortKey(s), k), ArraySort(RefSort, ArraySort(h.l.idxSort(), s)))
}

func (h *Heap) readCell(s *Sort, tag string, addr *Term) *Term {
	_, a := h.cellArr(s, tag)
	return Select(a, addr)
}

func (h *Heap) writeCell(s *Sort, tag string, addr, v *Term) {
	key, a := h.cellArr(s, tag)
	touchedKeys[key] = true
	h.arrays[key] = Store(a, addr, v)
}

func (h *Heap) readElem(s *Sort, k int, arr, idx *Term) *Term {
	_, a := h.elemArr(s, k)
	return Select(Select(a, arr), idx)
}

func (h *Heap) elemRow(s *Sort, k int, arr *Term) *Term {
	_, a := h.elemArr(s, k)
	return Select(a, arr)
}

func (h *Heap) writeElem(s *Sort, k int, arr, idx, v *Term) {
	key, a := h.elemArr(s, k)
	touchedKeys[key] = true
	h.arrays[key] = Store(a, arr, Store(Select(a, arr), idx, v))
}

func (h *Heap) setElemRow(s *Sort, k int, arr, row *Term) {
	key, a := h.elemArr(s, k)
	touchedKeys[key] = true
	h.arrays[key] = Store(a, arr, row)
}

// fromComps assembles a Value of type t from scalar component terms.
func (l layout) fromComps(t types.Type, cs []*Term) Value {
	switch u := t.Underlying().(type) {
	case *types.Basic:
		if u.Info()&types.IsString != 0 {
			return SliceV{Arr: cs[0], Off: cs[1], Len: cs[2], Cap: cs[2]}
		}
		return Scalar{cs[0]}
	case *types.Slice:
		return SliceV{Arr: cs[0], Off: cs[1], Len: cs[2], Cap: cs[3]}
	case *types.Interface:
		return IfaceV{Ref: cs[0], Typ: cs[1]}
	default:
		_ = u
		return Scalar{cs[0]}
	}
}

func (l layout) toComps(t types.Type, v Value) []*Term {
	switch x := v.(type) {
	case Scalar:
		return []*Term{x.T}
	case SliceV:
		if b, ok := t.Underlying().(*types.Basic); ok && b.Info()&types.IsString != 0 {
			return []*Term{x.Arr, x.Off, x.Len}
		}
		return []*Term{x.Arr, x.Off, x.Len, x.Cap}
	case IfaceV:
		return []*Term{x.Ref, x.Typ}
	case FuncV, ClosureV:
		return []*Term{NilRef}
	}
	panic(fmt.Sprintf("toComps: unsupported value %T for %s", v, t))
}

// load reads a value of type t stored at address addr.
func (h *Heap) load(t types.Type, addr *Term) Value {
	switch u := t.Underlying().(type) {
	case *types.Struct:
		sv := StructV{Type: u}
		owner := typeKey(t)
		for i := 0; i < u.NumFields(); i++ {
			sv.Fields = append(sv.Fields, h.load(u.Field(i).Type(), Emb(addr, fieldID(u, owner, i))))
		}
		return sv
	case *types.Array:
		cs := h.l.comps(u.Elem())
		if cs == nil {
			panic("load of array with composite elements: " + t.String())
		}
		av := ArrayV{Len: u.Len()}
		for k, c := range cs {
			av.Elems = append(av.Elems, h.elemRow(c.sort, k, addr))
		}
		return av
	}
	cs := h.l.comps(t)
	if cs == nil {
		panic("load: unsupported type " + t.String())
	}
	ts := make([]*Term, len(cs))
	for k, c := range cs {
		ts[k] = h.readCell(c.sort, c.tag, subAddr(addr, k))
	}
	return h.l.fromComps(t, ts)
}

func (h *Heap) store(t types.Type, addr *Term, v Value) {
	switch u := t.Underlying().(type) {
	case *types.Struct:
		sv := v.(StructV)
		owner := typeKey(t)
		for i := 0; i < u.NumFields(); i++ {
			h.store(u.Field(i).Type(), Emb(addr, fieldID(u, owner, i)), sv.Fields[i])
		}
		return
	case *types.Array:
		av := v.(ArrayV)
		cs := h.l.comps(u.Elem())
		for k, c := range cs {
			h.setElemRow(c.sort, k, addr, av.Elems[k])
		}
		return
	}
	cs := h.l.comps(t)
	ts := h.l.toComps(t, v)
	for k, c := range cs {
		h.writeCell(c.sort, c.tag, subAddr(addr, k), ts[k])
	}
}

// loadElem reads element idx (of type t) of the array object arr.
func (h *Heap) loadElem(t types.Type, arr, idx *Term) Value {
	cs := h.l.comps(t)
	if cs == nil {
		// composite element: lives at elem(arr, idx)
		return h.load(t, ElemRef(arr, idx))
	}
	ts := make([]*Term, len(cs))
	for k, c := range cs {
		ts[k] = h.readElem(c.sort, k, arr, idx)
	}
	return h.l.fromComps(t, ts)
}

func (h *Heap) storeElem(t types.Type, arr, idx *Term, v Value) {
	cs := h.l.comps(t)
	if cs == nil {
		h.store(t, ElemRef(arr, idx), v)
		return
	}
	ts := h.l.toComps(t, v)
	for k, c := range cs {
		h.writeElem(c.sort, k, arr, idx, ts[k])
	}
}

// zero value of type t
func (l layout) zero(t types.Type) Value {
	switch u := t.Underlying().(type) {
	case *types.Struct:
		sv := StructV{Type: u}
		for i := 0; i < u.NumFields(); i++ {
			sv.Fields = append(sv.Fields, l.zero(u.Field(i).Type()))
		}
		return sv
	case *types.Array:
		cs := l.comps(u.Elem())
		if cs == nil {
			panic("zero: array of composite elements " + t.String())
		}
		av := ArrayV{Len: u.Len()}
		for _, c := range cs {
			av.Elems = append(av.Elems, constArray(ArraySort(l.idxSort(), c.sort), l.zeroOf(c.sort)))
		}
		return av
	}
	cs := l.comps(t)
	if cs == nil {
		panic("zero: unsupported type " + t.String())
	}
	ts := make([]*Term, len(cs))
	for k, c := range cs {
		ts[k] = l.zeroOf(c.sort)
	}
	return l.fromComps(t, ts)
}

func (l layout) zeroOf(s *Sort) *Term {
	switch s.Kind {
	case SBool:
		return False
	case SInt:
		return IntLit(0)
	case SRef:
		return NilRef
	case SBV:
		return BVLit(zeroBig, s.Width)
	}
	panic("zeroOf")
}

func constArray(s *Sort, v *Term) *Term {
	t := mk("constarr", s, v)
	t.Name = "(as const " + s.String() + ")"
	return intern(t)
}

// initial returns the entry-state array for a heap key that has not been written yet.
func (h *Heap) initial(key string) *Term {
	switch {
	case strings.HasPrefix(key, "H:"):
		n := h.clone()
		n.arrays = map[string]*Term{}
		return n.cellArrByKey(key)
	case strings.HasPrefix(key, "M:"):
		parts := strings.SplitN(key[2:], "#", 2)
		k := 0
		fmt.Sscanf(parts[1], "%d", &k)
		n := h.clone()
		n.arrays = map[string]*Term{}
		_, a := n.elemArr(sortFromKey(parts[0]), k)
		return a
	case key == "MAPLEN":
		return Var("MAPLEN_0", ArraySort(RefSort, IntSort))
	}
	return keyInit[key]
}
