package main

// Evaluation of contract expressions over symbolic states.

import (
	"fmt"
	"go/constant"
	"go/types"
	"math/big"
	"strings"

	"golang.org/x/tools/go/ssa"
)

type TV struct {
	V Value
	T types.Type // nil: specification-level integer/boolean
}

type Env struct {
	fv    *FV
	pkg   string
	st    *State
	old   *State
	vars  map[string]TV
	fr    *Frame
	depth int
}

func (e *Env) with(vars map[string]TV) *Env {
	n := *e
	n.vars = vars
	return &n
}

func (e *Env) child() *Env {
	n := *e
	n.vars = make(map[string]TV, len(e.vars)+2)
	for k, v := range e.vars {
		n.vars[k] = v
	}
	return &n
}

const specBV = 128

func (e *Env) bv() bool { return e.fv.l.mode == ModeBV }

func (e *Env) specInt(v *big.Int) TV {
	if e.bv() {
		return TV{Scalar{BVLit(v, specBV)}, nil}
	}
	return TV{Scalar{IntBig(v)}, nil}
}

// promote lifts a program integer to the specification integer domain.
func (e *Env) promote(tv TV) *Term {
	s, ok := tv.V.(Scalar)
	if !ok {
		e.fv.fail("expected scalar in spec arithmetic, got %T", tv.V)
	}
	if !e.bv() {
		return s.T
	}
	if s.T.Sort.Kind != SBV {
		e.fv.fail("expected bit-vector in spec arithmetic, got %s", s.T.Sort)
	}
	w := s.T.Sort.Width
	if w == specBV {
		return s.T
	}
	if tv.T != nil && isUnsigned(tv.T) {
		return BVZeroExt(specBV-w, s.T)
	}
	return BVSignExt(specBV-w, s.T)
}

func (e *Env) boolOf(tv TV) *Term {
	s, ok := tv.V.(Scalar)
	if !ok || s.T.Sort != BoolSort {
		e.fv.fail("expected boolean in spec, got %T", tv.V)
	}
	return s.T
}

func (e *Env) evalBool(x *Expr) *Term { return e.boolOf(e.eval(x)) }

// assume evaluates a specification clause and adds it (with the type invariants of the heap
// values it reads) to the state.
func (e *Env) assume(st *State, x *Expr) {
	t := e.evalBool(x)
	e.fv.flushSide(st)
	st.assume(t)
}

func (e *Env) lookupConst(pkgPath, name string) (TV, bool) {
	sp := e.fv.P.SSAPkgs[pkgPath]
	if sp == nil {
		return TV{}, false
	}
	obj := sp.Pkg.Scope().Lookup(name)
	switch o := obj.(type) {
	case *types.Const:
		switch o.Val().Kind() {
		case constant.Int:
			v, _ := new(big.Int).SetString(o.Val().ExactString(), 10)
			return e.specInt(v), true
		case constant.Bool:
			return TV{Scalar{BoolLit(constant.BoolVal(o.Val()))}, nil}, true
		}
	case *types.Var:
		g, ok := sp.Members[name].(*ssa.Global)
		if !ok {
			return TV{}, false
		}
		if v, ok := e.fv.sentinelGlobal(e.st, g); ok {
			return TV{v, o.Type()}, true
		}
		switch o.Type().Underlying().(type) {
		case *types.Struct, *types.Array:
			return TV{Scalar{e.fv.globalAddr(g)}, types.NewPointer(o.Type())}, true
		}
		v := e.st.heap.load(o.Type(), e.fv.globalAddr(g))
		return TV{v, o.Type()}, true
	}
	return TV{}, false
}

func (e *Env) findPkgByName(name string) string {
	if m := e.fv.P.Specs.Imports[e.pkg]; m != nil {
		if p, ok := m[name]; ok {
			return p
		}
	}
	// imports of the current package first
	if sp := e.fv.P.SSAPkgs[e.pkg]; sp != nil {
		for _, imp := range sp.Pkg.Imports() {
			if imp.Name() == name {
				return imp.Path()
			}
		}
	}
	for path, p := range e.fv.P.SSAPkgs {
		if p.Pkg.Name() == name {
			return path
		}
	}
	return ""
}

func (e *Env) eval(x *Expr) TV {
	switch x.Kind {
	case EInt:
		return e.specInt(x.Val)
	case EString:
		return TV{e.fv.stringConst(x.Name), types.Typ[types.String]}
	case EIdent:
		return e.evalIdent(x)
	case EUnary:
		a := e.eval(x.Args[0])
		switch x.Op {
		case "!":
			return TV{Scalar{Not(e.boolOf(a))}, nil}
		case "-":
			return TV{Scalar{Neg(e.promote(a))}, nil}
		case "^":
			if e.bv() {
				t := e.promote(a)
				return TV{Scalar{mk("bvnot", t.Sort, t)}, nil}
			}
			return TV{Scalar{Sub(IntLit(-1), e.promote(a))}, nil}
		}
	case EBinary:
		return e.evalBinary(x)
	case ETernary:
		c := e.evalBool(x.Args[0])
		a, b := e.eval(x.Args[1]), e.eval(x.Args[2])
		a, b = e.unify(a, b)
		return TV{e.fv.iteValue(c, a.V, b.V), a.T}
	case ECall:
		return e.evalCall(x)
	case EField:
		return e.evalField(x)
	case EIndex:
		return e.evalIndex(x)
	case ESlice:
		base := e.eval(x.Args[0])
		s, ok := base.V.(SliceV)
		if !ok {
			e.fv.fail("%s: slicing non-slice", x.Pos)
		}
		lo := e.fv.idx(0)
		if x.Args[1] != nil {
			lo = e.idxOf(e.eval(x.Args[1]))
		}
		hi := s.Len
		if x.Args[2] != nil {
			hi = e.idxOf(e.eval(x.Args[2]))
		}
		return TV{SliceV{Arr: s.Arr, Off: Add(s.Off, lo), Len: Sub(hi, lo), Cap: Sub(s.Cap, lo)}, base.T}
	case EQuant:
		ne := e.child()
		var bound []*Term
		var guards []*Term
		for _, v := range x.Vars {
			if v.Type == "Ref" {
				e.fv.nfresh++
				bv := BoundVar(fmt.Sprintf("%s!q%d", sanitize(v.Name), e.fv.nfresh), RefSort)
				bound = append(bound, bv)
				ne.vars[v.Name] = TV{Scalar{bv}, nil}
				continue
			}
			t, err := e.fv.P.ResolveType(e.pkg, v.Type)
			if err != nil {
				e.fv.fail("%s: %v", x.Pos, err)
			}
			cs := e.fv.l.comps(t)
			if len(cs) != 1 {
				e.fv.fail("%s: quantified variable %s must be scalar", x.Pos, v.Name)
			}
			e.fv.nfresh++
			bv := BoundVar(fmt.Sprintf("%s!q%d", sanitize(v.Name), e.fv.nfresh), cs[0].sort)
			bound = append(bound, bv)
			ne.vars[v.Name] = TV{Scalar{bv}, t}
			if v.Type == "" || isInteger(t) {
				if !e.bv() && v.Type != "" && v.Type != "int" {
					lo, hi := e.fv.intRange(t)
					guards = append(guards, And(Le(IntBig(lo), bv), Le(bv, IntBig(hi))))
				}
			}
		}
		body := ne.evalBool(x.Args[0])
		if x.Op == "forall" {
			return TV{Scalar{Forall(bound, Implies(And(guards...), body))}, nil}
		}
		return TV{Scalar{Exists(bound, And(append(guards, body)...))}, nil}
	case EOld:
		if e.old == nil {
			e.fv.fail("%s: old() not allowed here", x.Pos)
		}
		ne := *e
		ne.st = e.old
		return ne.eval(x.Args[0])
	case ELet:
		v := e.eval(x.Args[0])
		ne := e.child()
		ne.vars[x.Name] = v
		return ne.eval(x.Args[1])
	case EDeref:
		p := e.eval(x.Args[0])
		pt, ok := p.T.Underlying().(*types.Pointer)
		if !ok {
			e.fv.fail("%s: deref of non-pointer", x.Pos)
		}
		return TV{e.st.heap.load(pt.Elem(), p.V.(Scalar).T), pt.Elem()}
	}
	e.fv.fail("%s: cannot evaluate %s", x.Pos, x)
	return TV{}
}

func (e *Env) idxOf(tv TV) *Term {
	s := tv.V.(Scalar).T
	if !e.bv() {
		return s
	}
	if s.Sort.Width == 64 {
		return s
	}
	if s.Sort.Width > 64 {
		return BVExtract(63, 0, s)
	}
	if tv.T != nil && isUnsigned(tv.T) {
		return BVZeroExt(64-s.Sort.Width, s)
	}
	return BVSignExt(64-s.Sort.Width, s)
}

// unify makes two spec values comparable (promotes integers in bv mode, nil to the other's shape).
func (e *Env) unify(a, b TV) (TV, TV) {
	as, aok := a.V.(Scalar)
	bs, bok := b.V.(Scalar)
	if aok && bok {
		if as.T.Sort == bs.T.Sort {
			return a, b
		}
		if as.T.Sort.Kind == SBV && bs.T.Sort.Kind == SBV {
			return TV{Scalar{e.promote(a)}, nil}, TV{Scalar{e.promote(b)}, nil}
		}
		e.fv.fail("cannot unify sorts %s and %s", as.T.Sort, bs.T.Sort)
	}
	// nil literal against composite
	if aok && as.T.Op == "nil" {
		return e.nilLike(b), b
	}
	if bok && bs.T.Op == "nil" {
		return a, e.nilLike(a)
	}
	return a, b
}

func (e *Env) nilLike(tv TV) TV {
	switch tv.V.(type) {
	case SliceV:
		z := e.fv.idx(0)
		return TV{SliceV{NilRef, z, z, z}, tv.T}
	case IfaceV:
		return TV{IfaceV{NilRef, IntLit(0)}, tv.T}
	}
	return TV{Scalar{NilRef}, tv.T}
}

func (e *Env) evalIdent(x *Expr) TV {
	if v, ok := e.vars[x.Name]; ok {
		return v
	}
	switch x.Name {
	case "true":
		return TV{Scalar{True}, nil}
	case "false":
		return TV{Scalar{False}, nil}
	case "nil":
		return TV{Scalar{NilRef}, nil}
	}
	// local variable of the function under verification (loop invariants)
	if e.fr != nil {
		if tv, ok := e.localVar(x.Name); ok {
			return tv
		}
	}
	if g, ok := e.fv.P.Specs.GhostV[x.Name]; ok {
		return e.ghostVar(g)
	}
	if tv, ok := e.lookupConst(e.pkg, x.Name); ok {
		return tv
	}
	e.fv.fail("%s: unknown identifier %q", x.Pos, x.Name)
	return TV{}
}

func (e *Env) localVar(name string) (TV, bool) {
	want := name
	ord := 1
	if k := strings.Index(name, "#"); k >= 0 {
		want = name[:k]
		fmt.Sscanf(name[k+1:], "%d", &ord)
	}
	n := 0
	for _, b := range e.fr.fn.Blocks {
		for _, in := range b.Instrs {
			a, ok := in.(*ssa.Alloc)
			if !ok || a.Comment != want {
				continue
			}
			n++
			if n != ord {
				continue
			}
			t := a.Type().(*types.Pointer).Elem()
			if v, ok := e.fr.cells[a]; ok {
				return TV{v, t}, true
			}
			if ref, ok := e.fr.heapLocs[a]; ok {
				return TV{e.st.heap.load(t, ref), t}, true
			}
			// not yet allocated on this path: zero value
			return TV{e.fv.l.zero(t), t}, true
		}
	}
	return TV{}, false
}

func (e *Env) ghostSort(typ string) *Sort {
	typ = strings.TrimSpace(typ)
	if strings.HasPrefix(typ, "map[") {
		depth := 0
		for i, c := range typ {
			if c == '[' {
				depth++
			}
			if c == ']' {
				depth--
				if depth == 0 {
					return ArraySort(e.ghostSort(typ[4:i]), e.ghostSort(typ[i+1:]))
				}
			}
		}
	}
	switch typ {
	case "int", "Int":
		return IntSort
	case "bool", "Bool":
		return BoolSort
	case "Ref", "ref":
		return RefSort
	}
	if strings.HasPrefix(typ, "*") {
		return RefSort
	}
	t, err := e.fv.P.ResolveType(e.pkg, typ)
	if err == nil {
		if cs := e.fv.l.comps(t); len(cs) == 1 {
			return cs[0].sort
		}
	}
	e.fv.fail("unsupported ghost type %q", typ)
	return nil
}

func (e *Env) ghostVar(g *GhostVar) TV {
	if t, ok := e.st.ghost[g.Name]; ok {
		return TV{Scalar{t}, nil}
	}
	return TV{Scalar{Var("G_"+sanitize(g.Name)+"_0", e.ghostSort(g.Type))}, nil}
}

func (e *Env) evalBinary(x *Expr) TV {
	switch x.Op {
	case "&&":
		a := e.evalBool(x.Args[0])
		if a.IsFalse() {
			return TV{Scalar{False}, nil}
		}
		return TV{Scalar{And(a, e.evalBool(x.Args[1]))}, nil}
	case "||":
		a := e.evalBool(x.Args[0])
		if a.IsTrue() {
			return TV{Scalar{True}, nil}
		}
		return TV{Scalar{Or(a, e.evalBool(x.Args[1]))}, nil}
	case "==>":
		a := e.evalBool(x.Args[0])
		if a.IsFalse() {
			return TV{Scalar{True}, nil}
		}
		return TV{Scalar{Implies(a, e.evalBool(x.Args[1]))}, nil}
	case "<==>":
		return TV{Scalar{Eq(e.evalBool(x.Args[0]), e.evalBool(x.Args[1]))}, nil}
	}
	a, b := e.eval(x.Args[0]), e.eval(x.Args[1])
	switch x.Op {
	case "==", "!=":
		a, b = e.unify(a, b)
		t := a.T
		if t == nil {
			t = b.T
		}
		if t == nil {
			t = types.Typ[types.Int]
		}
		e.fv.eqHeap = e.st.heap
		eq := e.fv.valuesEqualSpec(a.V, b.V, t)
		if x.Op == "!=" {
			eq = Not(eq)
		}
		return TV{Scalar{eq}, nil}
	}
	l, r := e.promote(a), e.promote(b)
	if e.bv() {
		switch x.Op {
		case "+":
			return TV{Scalar{BVOp("bvadd", l, r)}, nil}
		case "-":
			return TV{Scalar{BVOp("bvsub", l, r)}, nil}
		case "*":
			return TV{Scalar{BVOp("bvmul", l, r)}, nil}
		case "/":
			return TV{Scalar{BVOp("bvsdiv", l, r)}, nil}
		case "%":
			return TV{Scalar{BVOp("bvsrem", l, r)}, nil}
		case "&":
			return TV{Scalar{BVOp("bvand", l, r)}, nil}
		case "|":
			return TV{Scalar{BVOp("bvor", l, r)}, nil}
		case "^":
			return TV{Scalar{BVOp("bvxor", l, r)}, nil}
		case "<<":
			return TV{Scalar{BVOp("bvshl", l, r)}, nil}
		case ">>":
			return TV{Scalar{BVOp("bvashr", l, r)}, nil}
		case "<":
			return TV{Scalar{BVCmp("bvslt", l, r)}, nil}
		case "<=":
			return TV{Scalar{BVCmp("bvsle", l, r)}, nil}
		case ">":
			return TV{Scalar{BVCmp("bvslt", r, l)}, nil}
		case ">=":
			return TV{Scalar{BVCmp("bvsle", r, l)}, nil}
		}
	} else {
		switch x.Op {
		case "+":
			return TV{Scalar{Add(l, r)}, nil}
		case "-":
			return TV{Scalar{Sub(l, r)}, nil}
		case "*":
			return TV{Scalar{Mul(l, r)}, nil}
		case "/", "%":
			if r.Op == "int" && r.Int.Sign() > 0 || l.hasBound || r.hasBound {
				if x.Op == "/" {
					return TV{Scalar{tdiv(l, r)}, nil}
				}
				return TV{Scalar{Sub(l, Mul(r, tdiv(l, r)))}, nil}
			}
			tmp := &State{}
			q, m := e.fv.divmod(tmp, l, r)
			for _, f := range tmp.pc {
				e.fv.side = append(e.fv.side, Implies(Neq(r, IntLit(0)), f))
			}
			if x.Op == "/" {
				return TV{Scalar{q}, nil}
			}
			return TV{Scalar{m}, nil}
		case "<":
			return TV{Scalar{Lt(l, r)}, nil}
		case "<=":
			return TV{Scalar{Le(l, r)}, nil}
		case ">":
			return TV{Scalar{Gt(l, r)}, nil}
		case ">=":
			return TV{Scalar{Ge(l, r)}, nil}
		case "<<":
			return TV{Scalar{Mul(l, e.fv.pow2(r))}, nil}
		case ">>":
			return TV{Scalar{EDiv(l, e.fv.pow2(r))}, nil}
		case "&":
			if f := intBitFold("&", l, r); f != nil {
				return TV{Scalar{f}, nil}
			}
			if r.Op == "int" {
				m := new(big.Int).Add(r.Int, big.NewInt(1))
				if r.Int.Sign() >= 0 && new(big.Int).And(m, r.Int).Sign() == 0 {
					return TV{Scalar{EMod(l, IntBig(m))}, nil}
				}
			}
			return TV{Scalar{App("bvand", IntSort, l, r)}, nil}
		case "|":
			if f := intBitFold("|", l, r); f != nil {
				return TV{Scalar{f}, nil}
			}
			return TV{Scalar{App("bvor", IntSort, l, r)}, nil}
		case "^":
			if f := intBitFold("^", l, r); f != nil {
				return TV{Scalar{f}, nil}
			}
			return TV{Scalar{App("bvxor", IntSort, l, r)}, nil}
		}
	}
	e.fv.fail("%s: unsupported spec operator %q", x.Pos, x.Op)
	return TV{}
}

// valuesEqualSpec is equality for specifications: slices compare by header.
func (fv *FV) valuesEqualSpec(a, b Value, t types.Type) *Term {
	if x, ok := a.(SliceV); ok {
		if y, ok := b.(SliceV); ok {
			if bt, isB := t.Underlying().(*types.Basic); !(isB && bt.Info()&types.IsString != 0) {
				if y.Arr.Op == "nil" {
					return Eq(x.Arr, NilRef)
				}
				if x.Arr.Op == "nil" {
					return Eq(y.Arr, NilRef)
				}
				return And(Eq(x.Arr, y.Arr), Eq(x.Off, y.Off), Eq(x.Len, y.Len), Eq(x.Cap, y.Cap))
			}
		}
	}
	return fv.valuesEqual(a, b, t)
}

func (e *Env) evalField(x *Expr) TV {
	// qualified identifier pkg.Name ?
	if id := x.Args[0]; id.Kind == EIdent {
		if _, isVar := e.vars[id.Name]; !isVar {
			isLocal := false
			if e.fr != nil {
				_, isLocal = e.localVar(id.Name)
			}
			if !isLocal {
				if p := e.findPkgByName(id.Name); p != "" {
					if tv, ok := e.lookupConst(p, x.Name); ok {
						return tv
					}
					e.fv.fail("%s: cannot resolve %s.%s", x.Pos, id.Name, x.Name)
				}
			}
		}
	}
	base := e.eval(x.Args[0])
	return e.fieldOf(base, x.Name, x.Pos)
}

func (e *Env) structOf(t types.Type) (*types.Struct, types.Type, bool) {
	if t == nil {
		return nil, nil, false
	}
	isPtr := false
	if p, ok := t.Underlying().(*types.Pointer); ok {
		t = p.Elem()
		isPtr = true
	}
	st, ok := t.Underlying().(*types.Struct)
	if !ok {
		return nil, nil, false
	}
	return st, t, isPtr
}

func (e *Env) fieldOf(base TV, name, pos string) TV {
	st, named, isPtr := e.structOf(base.T)
	if st == nil {
		e.fv.fail("%s: field %q of non-struct %v", pos, name, base.T)
	}
	owner := typeKey(named)
	for i := 0; i < st.NumFields(); i++ {
		if st.Field(i).Name() == name {
			ft := st.Field(i).Type()
			if isPtr {
				ref := base.V.(Scalar).T
				addr := Emb(ref, fieldID(st, owner, i))
				switch ft.Underlying().(type) {
				case *types.Struct, *types.Array:
					// by-value aggregate: denote by its address (pointer to it)
					return TV{Scalar{addr}, types.NewPointer(ft)}
				}
				v := e.st.heap.load(ft, addr)
				if !addr.hasBound {
					// type invariant of the loaded value: a fact about every well-typed heap
					tmp := &State{wm: e.st.wm}
					e.fv.assumeLoaded(tmp, v, ft)
					e.fv.side = append(e.fv.side, tmp.pc...)
				}
				return TV{v, ft}
			}
			return TV{base.V.(StructV).Fields[i], ft}
		}
	}
	// promoted fields through embedded structs
	for i := 0; i < st.NumFields(); i++ {
		if st.Field(i).Embedded() {
			if _, _, ok := e.structOfField(st.Field(i).Type()); ok {
				inner := e.fieldOf(base, st.Field(i).Name(), pos)
				if s2, _, _ := e.structOf(inner.T); s2 != nil && hasField(s2, name) {
					return e.fieldOf(inner, name, pos)
				}
			}
		}
	}
	// ghost field
	if isPtr {
		if nt, ok := named.(*types.Named); ok {
			for _, g := range e.fv.P.Specs.GhostF {
				if g.Struct == nt.Obj().Name() && g.Name == name && nt.Obj().Pkg() != nil && nt.Obj().Pkg().Path() == g.Pkg {
					gid := ghostFieldID(g)
					s := e.ghostSort(g.Type)
					return TV{Scalar{e.st.heap.readCell(s, "ghost", Emb(base.V.(Scalar).T, gid))}, nil}
				}
			}
		}
	}
	e.fv.fail("%s: no field %q in %s", pos, name, named)
	return TV{}
}

func hasField(st *types.Struct, name string) bool {
	for i := 0; i < st.NumFields(); i++ {
		if st.Field(i).Name() == name {
			return true
		}
	}
	return false
}

func (e *Env) structOfField(t types.Type) (*types.Struct, types.Type, bool) {
	s, n, _ := e.structOf(t)
	return s, n, s != nil
}

func ghostFieldID(g GhostField) int {
	key := "ghost:" + g.Pkg + "." + g.Struct + "." + g.Name
	if id, ok := fieldIDs[key]; ok {
		return id
	}
	id := len(fieldIDs) + 1
	fieldIDs[key] = id
	fieldNames[id] = key
	return id
}

func (e *Env) evalIndex(x *Expr) TV {
	base := e.eval(x.Args[0])
	idx := e.eval(x.Args[1])
	switch b := base.V.(type) {
	case SliceV:
		var et types.Type
		switch u := base.T.Underlying().(type) {
		case *types.Slice:
			et = u.Elem()
		default:
			et = types.Typ[types.Uint8]
		}
		return TV{e.st.heap.loadElem(et, b.Arr, Add(b.Off, e.idxOf(idx))), et}
	case ArrayV:
		at := base.T.Underlying().(*types.Array)
		ts := make([]*Term, len(b.Elems))
		for k := range b.Elems {
			ts[k] = Select(b.Elems[k], e.idxOf(idx))
		}
		return TV{e.fv.l.fromComps(at.Elem(), ts), at.Elem()}
	case Scalar:
		if base.T != nil {
			if mt, ok := base.T.Underlying().(*types.Map); ok {
				// Go map lookup in a specification: the zero value outside the domain
				ks := e.fv.l.comps(mt.Key())
				vcs := e.fv.l.comps(mt.Elem())
				if len(ks) != 1 || vcs == nil {
					e.fv.fail("%s: unsupported map type in specification", x.Pos)
				}
				k := idx.V.(Scalar).T
				_, dom := e.fv.mapDom(e.st, mt, ks[0].sort)
				in := And(Neq(b.T, NilRef), Select(Select(dom, b.T), k))
				ts := make([]*Term, len(vcs))
				for i, c := range vcs {
					_, a := e.fv.mapArr(e.st, mt, ks[0].sort, i, c.sort)
					ts[i] = Ite(in, Select(Select(a, b.T), k), e.fv.l.zeroOf(c.sort))
				}
				return TV{e.fv.l.fromComps(mt.Elem(), ts), mt.Elem()}
			}
		}
		if b.T.Sort.Kind == SArray {
			// ghost map
			var it *Term
			switch iv := idx.V.(type) {
			case Scalar:
				it = iv.T
			default:
				e.fv.fail("%s: bad ghost map index", x.Pos)
			}
			if it.Sort != b.T.Sort.Idx {
				e.fv.fail("%s: ghost map index sort %s, want %s", x.Pos, it.Sort, b.T.Sort.Idx)
			}
			return TV{Scalar{Select(b.T, it)}, nil}
		}
		// pointer to array
		if pt, ok := base.T.Underlying().(*types.Pointer); ok {
			if at, ok := pt.Elem().Underlying().(*types.Array); ok {
				return TV{e.st.heap.loadElem(at.Elem(), b.T, e.idxOf(idx)), at.Elem()}
			}
		}
	}
	e.fv.fail("%s: cannot index %T", x.Pos, base.V)
	return TV{}
}

func (e *Env) evalCall(x *Expr) TV {
	arg := func(i int) TV { return e.eval(x.Args[i]) }
	switch x.Name {
	case "len":
		a := arg(0)
		if a.T != nil {
			if _, ok := a.T.Underlying().(*types.Map); ok {
				_, la := e.fv.mapLenArr(e.st)
				return TV{Scalar{Select(la, a.V.(Scalar).T)}, types.Typ[types.Int]}
			}
		}
		switch v := a.V.(type) {
		case SliceV:
			return TV{Scalar{v.Len}, types.Typ[types.Int]}
		case ArrayV:
			return e.specInt(big.NewInt(v.Len))
		}
		e.fv.fail("%s: len of %T", x.Pos, a.V)
	case "cap":
		return TV{Scalar{arg(0).V.(SliceV).Cap}, types.Typ[types.Int]}
	case "arr":
		a0 := arg(0)
		if sc, ok := a0.V.(Scalar); ok {
			// an array-typed field: its storage address plays the role of the backing array
			return TV{sc, nil}
		}
		return TV{Scalar{a0.V.(SliceV).Arr}, nil}
	case "off":
		return TV{Scalar{arg(0).V.(SliceV).Off}, types.Typ[types.Int]}
	case "min", "max":
		a, b := e.promote(arg(0)), e.promote(arg(1))
		var c *Term
		if e.bv() {
			c = BVCmp("bvsle", a, b)
		} else {
			c = Le(a, b)
		}
		if x.Name == "min" {
			return TV{Scalar{Ite(c, a, b)}, nil}
		}
		return TV{Scalar{Ite(c, b, a)}, nil}
	case "disjoint":
		a, b := arg(0).V.(SliceV), arg(1).V.(SliceV)
		return TV{Scalar{Or(Neq(a.Arr, b.Arr), Eq(a.Arr, NilRef))}, nil}
	case "fresh":
		if e.old == nil {
			e.fv.fail("%s: fresh() needs a pre-state", x.Pos)
		}
		a := arg(0)
		switch v := a.V.(type) {
		case Scalar:
			return TV{Scalar{Ge(RootID(v.T), e.old.wm)}, nil}
		case SliceV:
			return TV{Scalar{Ge(RootID(v.Arr), e.old.wm)}, nil}
		}
	case "ref":
		a := arg(0)
		switch v := a.V.(type) {
		case IfaceV:
			return TV{Scalar{v.Ref}, nil}
		case Scalar:
			return TV{Scalar{v.T}, nil}
		case SliceV:
			return TV{Scalar{v.Arr}, nil}
		}
	case "seglen", "segbyte":
		// abstract sum of the segment lengths / y-th byte of the concatenation of a [][]byte value
		v := arg(0).V.(SliceV)
		h := e.st.heap
		arrRow := h.elemRow(RefSort, 0, v.Arr)
		offRow := h.elemRow(IntSort, 1, v.Arr)
		lenRow := h.elemRow(IntSort, 2, v.Arr)
		sl := App("seglen", IntSort, lenRow, v.Off, v.Len)
		if !v.Arr.hasBound && !v.Off.hasBound && !v.Len.hasBound {
			e.fv.side = append(e.fv.side, Ge(sl, IntLit(0)), Implies(Eq(v.Len, IntLit(0)), Eq(sl, IntLit(0))),
				Implies(Eq(v.Len, IntLit(1)), Eq(sl, Select(lenRow, v.Off))))
			// a single segment is its own concatenation
			e.fv.nfresh++
			y := BoundVar(fmt.Sprintf("y!sg%d", e.fv.nfresh), IntSort)
			_, M0 := h.elemArr(IntSort, 0)
			sb := App("segbyte", IntSort, M0, arrRow, offRow, lenRow, v.Off, v.Len, y)
			one := Forall([]*Term{y}, Implies(And(Le(IntLit(0), y), Lt(y, Select(lenRow, v.Off))),
				Eq(sb, Select(Select(M0, Select(arrRow, v.Off)), Add(Select(offRow, v.Off), y)))))
			if one.Op == "forall" {
				one.Pats = [][]*Term{{sb}}
			}
			e.fv.side = append(e.fv.side, Implies(Eq(v.Len, IntLit(1)), one))
		}
		if x.Name == "seglen" {
			return TV{Scalar{sl}, nil}
		}
		_, M0 := h.elemArr(IntSort, 0)
		return TV{Scalar{App("segbyte", IntSort, M0, arrRow, offRow, lenRow, v.Off, v.Len, e.promote(arg(1)))}, nil}
	case "content":
		// abstract identity of the byte string held by a string or []byte value
		v := arg(0).V.(SliceV)
		elemSort := e.fv.l.intSort(types.Typ[types.Uint8])
		return TV{Scalar{App("content", IntSort, e.st.heap.elemRow(elemSort, 0, v.Arr), v.Off, v.Len)}, nil}
	case "crc32ieee":
		r := App("crc32ieee", IntSort, e.promote(arg(0)))
		e.fv.side = append(e.fv.side, And(Le(IntLit(0), r), Le(r, IntLit(4294967295))))
		return TV{Scalar{r}, nil}
	case "has":
		// has(m, k): k is in the domain of the Go map m
		m := arg(0)
		mt, ok := m.T.Underlying().(*types.Map)
		if !ok {
			e.fv.fail("%s: has() needs a map", x.Pos)
		}
		ks := e.fv.l.comps(mt.Key())
		_, dom := e.fv.mapDom(e.st, mt, ks[0].sort)
		mr := m.V.(Scalar).T
		return TV{Scalar{And(Neq(mr, NilRef), Select(Select(dom, mr), arg(1).V.(Scalar).T))}, nil}
	case "elemref":
		a := arg(0)
		return TV{Scalar{ElemRef(a.V.(Scalar).T, e.idxOf(arg(1)))}, nil}
	case "ptr_extent":
		a := arg(0)
		var r *Term
		switch v := a.V.(type) {
		case Scalar:
			r = v.T
		case IfaceV:
			r = v.Ref
		}
		return TV{Scalar{App("ptr_extent", e.fv.l.idxSort(), r)}, types.Typ[types.Int]}
	case "allocated":
		a := arg(0)
		switch v := a.V.(type) {
		case Scalar:
			return TV{Scalar{Lt(RootID(v.T), e.st.wm)}, nil}
		case SliceV:
			return TV{Scalar{Lt(RootID(v.Arr), e.st.wm)}, nil}
		}
	case "isnil":
		a := arg(0)
		switch v := a.V.(type) {
		case Scalar:
			return TV{Scalar{Eq(v.T, NilRef)}, nil}
		case SliceV:
			return TV{Scalar{Eq(v.Arr, NilRef)}, nil}
		case IfaceV:
			return TV{Scalar{Eq(v.Typ, IntLit(0))}, nil}
		}
	case "typeis":
		// typeis(x, "pkg.Type")
		a := arg(0).V.(IfaceV)
		name := x.Args[1].Name
		t, err := e.fv.P.ResolveType(e.pkg, name)
		if err != nil {
			// type of a package that is not part of this program: uninterpreted
			return TV{Scalar{App("typeis_"+sanitize(name), BoolSort, a.Typ)}, nil}
		}
		return TV{Scalar{Eq(a.Typ, IntLit(int64(typeID(t))))}, nil}
	case "tyid":
		// tyid(x): the dynamic type of an interface value (as an integer id; 0 for the nil interface)
		if a, ok := arg(0).V.(IfaceV); ok {
			return TV{Scalar{a.Typ}, nil}
		}
	case "iserrno":
		// iserrno(err, n): err holds the syscall.Errno value n (same encoding as MakeInterface of an integer)
		a := arg(0).V.(IfaceV)
		t, rerr := e.fv.P.ResolveType(e.pkg, "syscall.Errno")
		if rerr != nil {
			e.fv.fail("%s: iserrno: %v", x.Pos, rerr)
		}
		n := e.promote(arg(1))
		tid := int64(typeID(t))
		return TV{Scalar{And(Eq(a.Typ, IntLit(tid)), Eq(a.Ref, ElemRef(Obj(IntLit(-500000-tid)), n)))}, nil}
	case "same":
		a, b := arg(0), arg(1)
		return TV{Scalar{e.fv.valuesEqualSpec(a.V, b.V, a.T)}, nil}
	case "int", "int64", "uint", "uint32", "uint64", "int32", "uint8", "byte", "uint16":
		a := arg(0)
		t := types.Universe.Lookup(x.Name).Type()
		if e.bv() {
			w := basicWidth(t.Underlying().(*types.Basic))
			p := e.promote(a)
			return TV{Scalar{BVExtract(w-1, 0, p)}, t}
		}
		if a.T != nil && isInteger(a.T) {
			flo, fhi := e.fv.intRange(a.T)
			tlo, thi := e.fv.intRange(t)
			if flo.Cmp(tlo) >= 0 && fhi.Cmp(thi) <= 0 {
				return TV{a.V, t}
			}
		}
		return TV{Scalar{e.fv.wrap(a.V.(Scalar).T, t)}, t}
	case "pow2":
		if e.bv() {
			one := BVLit(big.NewInt(1), specBV)
			return TV{Scalar{BVOp("bvshl", one, e.promote(arg(0)))}, nil}
		}
		return TV{Scalar{e.fv.pow2(e.promote(arg(0)))}, nil}
	case "ispow2":
		a := e.promote(arg(0))
		if e.bv() {
			var alts []*Term
			for k := 0; k < specBV-1; k++ {
				alts = append(alts, Eq(a, BVLit(new(big.Int).Lsh(big.NewInt(1), uint(k)), specBV)))
			}
			return TV{Scalar{Or(alts...)}, nil}
		}
		e.fv.pow2Used = true
		return TV{Scalar{App("ispow2", BoolSort, a)}, nil}
	case "bitlen": // number of bits needed to represent a non-negative integer (bits.Len)
		if e.bv() {
			return TV{Scalar{bvBitLen(e.promote(arg(0)), specBV)}, nil}
		}
		return TV{Scalar{App("bitlen", IntSort, e.promote(arg(0)))}, nil}
	case "unchanged":
		if e.old == nil {
			e.fv.fail("%s: unchanged() needs a pre-state", x.Pos)
		}
		var cs []*Term
		for _, a := range x.Args {
			now := e.eval(a)
			oe := *e
			oe.st = e.old
			before := oe.eval(a)
			cs = append(cs, e.fv.valuesEqualSpec(now.V, before.V, now.T))
		}
		return TV{Scalar{And(cs...)}, nil}
	case "rowsame":
		// rowsame(s): backing row of slice s unchanged since old state
		if e.old == nil {
			e.fv.fail("%s: rowsame() needs a pre-state", x.Pos)
		}
		oe := *e
		oe.st = e.old
		s := oe.eval(x.Args[0]).V.(SliceV)
		elemSort := e.fv.l.intSort(types.Typ[types.Uint8])
		return TV{Scalar{Eq(e.st.heap.elemRow(elemSort, 0, s.Arr), e.old.heap.elemRow(elemSort, 0, s.Arr))}, nil}
	}
	// uninterpreted specification functions: ufint_*, ufref_*, ufbool_*
	for pre, srt := range map[string]*Sort{"ufint_": IntSort, "ufref_": RefSort, "ufbool_": BoolSort} {
		if strings.HasPrefix(x.Name, pre) {
			var ts []*Term
			for i := range x.Args {
				a := arg(i)
				switch v := a.V.(type) {
				case Scalar:
					ts = append(ts, v.T)
				case IfaceV:
					ts = append(ts, v.Ref)
				case SliceV:
					ts = append(ts, v.Arr, v.Off, v.Len)
				}
			}
			return TV{Scalar{App(sanitize(x.Name), srt, ts...)}, nil}
		}
	}
	// macros
	name := x.Name
	pkg := e.pkg
	if k := strings.Index(name, "."); k >= 0 {
		if p := e.findPkgByName(name[:k]); p != "" {
			pkg = p
			name = name[k+1:]
		}
	}
	m := e.fv.P.Specs.Macros[pkg+"::"+name]
	if m == nil {
		m = e.fv.P.Specs.Macros["::"+name]
	}
	if m == nil && strings.Contains(x.Name, ".") && pkg != e.pkg && e.fv.P.SSAPkgs[pkg] == nil || (m == nil && strings.Contains(x.Name, ".") && !e.fv.P.pkgHasSpecs(pkg)) {
		// a predicate of a package that is not part of this program: uninterpreted
		var ts []*Term
		for i := range x.Args {
			if s, ok := arg(i).V.(Scalar); ok {
				ts = append(ts, s.T)
			}
		}
		return TV{Scalar{App("unloaded_"+sanitize(x.Name), BoolSort, ts...)}, nil}
	}
	if m == nil {
		e.fv.fail("%s: unknown function %q in specification", x.Pos, x.Name)
	}
	if len(m.Params) != len(x.Args) {
		e.fv.fail("%s: %s expects %d arguments", x.Pos, m.Name, len(m.Params))
	}
	if e.depth > 40 {
		e.fv.fail("%s: macro recursion too deep (%s)", x.Pos, m.Name)
	}
	vars := map[string]TV{}
	for i, p := range m.Params {
		a := arg(i)
		if a.T == nil && p.Type != "" {
			if t, err := e.fv.P.ResolveType(m.Pkg, p.Type); err == nil {
				if _, isScalar := a.V.(Scalar); isScalar {
					if cs := e.fv.l.comps(t); len(cs) == 1 && cs[0].sort == a.V.(Scalar).T.Sort {
						a.T = t
					}
				}
			}
		}
		vars[p.Name] = a
	}
	ne := e.with(vars)
	ne.pkg = m.Pkg
	if ne.pkg == "" {
		ne.pkg = e.pkg
	}
	ne.fr = nil
	ne.depth = e.depth + 1
	res := ne.eval(m.Body)
	if res.T == nil && m.Result != "" {
		if t, err := e.fv.P.ResolveType(m.Pkg, m.Result); err == nil {
			if sc, ok := res.V.(Scalar); ok {
				if cs := e.fv.l.comps(t); len(cs) == 1 && cs[0].sort == sc.T.Sort {
					res.T = t
				}
			}
		}
	}
	return res
}

func bvBitLen(x *Term, w int) *Term {
	// ite cascade: index of highest set bit + 1
	res := BVLit(zeroBig, w)
	for i := 0; i < w; i++ {
		bit := Eq(BVExtract(i, i, x), BVLit(big.NewInt(1), 1))
		res = Ite(bit, BVLit(big.NewInt(int64(i+1)), w), res)
	}
	return res
}

// ---------------------------------------------------------------- modifies locations

func (e *Env) evalLocs(xs []*Expr) []modLoc {
	var out []modLoc
	for _, x := range xs {
		out = append(out, e.evalLoc(x)...)
	}
	return out
}

// evalAllExcept evaluates modifies-all-except clauses.
func (e *Env) evalAllExcept(mas []ModAllExcept) []modLoc {
	var out []modLoc
	for _, ma := range mas {
		m := modLoc{kind: "allexcept", exceptFids: map[int]bool{}, exceptMaps: map[string]bool{}, exceptGhost: map[string]bool{}}
		for _, tn := range ma.Types {
			if strings.HasPrefix(tn, "ghost:") {
				m.exceptGhost[strings.TrimPrefix(tn, "ghost:")] = true
				continue
			}
			t, err := e.fv.P.ResolveType(e.pkg, tn)
			if err != nil {
				e.fv.fail("%s: %v", ma.Pos, err)
			}
			if _, isMap := t.Underlying().(*types.Map); isMap {
				m.exceptMaps[typeKey(t)] = true
				continue
			}
			st, ok := t.Underlying().(*types.Struct)
			if !ok {
				e.fv.fail("%s: modifies-all-except needs struct or map types, got %s", ma.Pos, tn)
			}
			owner := typeKey(t)
			for i := 0; i < st.NumFields(); i++ {
				m.exceptFids[fieldID(st, owner, i)] = true
			}
		}
		if ma.Guard != nil {
			m.guard = e.evalBool(ma.Guard)
			e.fv.side = nil
		}
		out = append(out, m)
	}
	return out
}

// evalEach evaluates modifies-each clauses; the condition is a closure over the current (pre-)state.
func (e *Env) evalEach(mes []ModEach) []modLoc {
	var out []modLoc
	for _, me := range mes {
		me := me
		t, err := e.fv.P.ResolveType(e.pkg, me.Type)
		if err != nil {
			e.fv.fail("%s: %v", me.Pos, err)
		}
		st, named, isPtr := e.structOf(t)
		if st == nil || !isPtr {
			e.fv.fail("%s: modifies-each variable must be a pointer to a struct", me.Pos)
		}
		owner := typeKey(named)
		var fids []int
		for _, fname := range me.Fields {
			found := false
			for i := 0; i < st.NumFields(); i++ {
				if st.Field(i).Name() == fname {
					fids = append(fids, fieldID(st, owner, i))
					found = true
				}
			}
			if !found {
				e.fv.fail("%s: no field %q in %s", me.Pos, fname, named)
			}
		}
		snap := *e
		snap.vars = make(map[string]TV, len(e.vars))
		for k, v := range e.vars {
			snap.vars[k] = v
		}
		cond := func(obj *Term) *Term {
			ne := snap.child()
			ne.vars[me.Var] = TV{Scalar{obj}, t}
			r := ne.evalBool(me.Cond)
			e.fv.side = nil
			return r
		}
		out = append(out, modLoc{kind: "each", fids: fids, cond: cond, typ: t})
	}
	return out
}

func (e *Env) evalLoc(x *Expr) []modLoc {
	if x.Kind == EBinary && x.Op == "if" {
		g := e.evalBool(x.Args[1])
		e.fv.side = nil
		locs := e.evalLoc(x.Args[0])
		for i := range locs {
			switch locs[i].kind {
			case "cell", "fields", "mem":
			default:
				e.fv.fail("%s: guarded modifies is supported for field, struct and mem locations only", x.Pos)
			}
			locs[i].guard = g
		}
		return locs
	}
	switch x.Kind {
	case ECall:
		if x.Name == "mapof" {
			a := e.eval(x.Args[0])
			mt, ok := a.T.Underlying().(*types.Map)
			if !ok {
				e.fv.fail("%s: mapof() needs a map", x.Pos)
			}
			return []modLoc{{kind: "map", addr: a.V.(Scalar).T, typ: mt}}
		}
		if x.Name == "mem" || x.Name == "memcap" {
			a := e.eval(x.Args[0])
			switch v := a.V.(type) {
			case SliceV:
				var et types.Type = types.Typ[types.Uint8]
				if st, ok := a.T.Underlying().(*types.Slice); ok {
					et = st.Elem()
				}
				n := v.Len
				if x.Name == "memcap" {
					n = v.Cap
				}
				return []modLoc{{kind: "mem", addr: v.Arr, typ: et, lo: v.Off, hi: Add(v.Off, n)}}
			case Scalar:
				if pt, ok := a.T.Underlying().(*types.Pointer); ok {
					if at, ok := pt.Elem().Underlying().(*types.Array); ok {
						return []modLoc{{kind: "mem", addr: v.T, typ: at.Elem(), lo: e.fv.idx(0), hi: e.fv.idx(at.Len())}}
					}
				}
			}
			e.fv.fail("%s: mem() of non-slice", x.Pos)
		}
	case EField:
		base := e.eval(x.Args[0])
		st, named, isPtr := e.structOf(base.T)
		if st == nil || !isPtr {
			e.fv.fail("%s: modifies target %s is not a field of a pointer", x.Pos, x)
		}
		ref := base.V.(Scalar).T
		if x.Name == "*" {
			return []modLoc{{kind: "fields", addr: ref, typ: named}}
		}
		owner := typeKey(named)
		for i := 0; i < st.NumFields(); i++ {
			if st.Field(i).Name() == x.Name {
				return []modLoc{{kind: "cell", addr: Emb(ref, fieldID(st, owner, i)), typ: st.Field(i).Type()}}
			}
		}
		if nt, ok := named.(*types.Named); ok {
			for _, g := range e.fv.P.Specs.GhostF {
				if g.Struct == nt.Obj().Name() && g.Name == x.Name {
					return []modLoc{{kind: "gcell", addr: Emb(ref, ghostFieldID(g)), sort: e.ghostSort(g.Type)}}
				}
			}
		}
		e.fv.fail("%s: no field %q", x.Pos, x.Name)
	case EDeref:
		p := e.eval(x.Args[0])
		pt := p.T.Underlying().(*types.Pointer)
		return []modLoc{{kind: "cell", addr: p.V.(Scalar).T, typ: pt.Elem()}}
	case EIdent:
		if g, ok := e.fv.P.Specs.GhostV[x.Name]; ok {
			return []modLoc{{kind: "ghost", name: g.Name, sort: e.ghostSort(g.Type)}}
		}
		// global variable
		if sp := e.fv.P.SSAPkgs[e.pkg]; sp != nil {
			if g, ok := sp.Members[x.Name].(*ssa.Global); ok {
				return []modLoc{{kind: "cell", addr: e.fv.globalAddr(g), typ: g.Type().(*types.Pointer).Elem()}}
			}
		}
	case EIndex:
		if id := x.Args[0]; id.Kind == EIdent {
			if g, ok := e.fv.P.Specs.GhostV[id.Name]; ok {
				idx := e.eval(x.Args[1]).V.(Scalar).T
				return []modLoc{{kind: "ghostidx", name: g.Name, idx: idx, sort: e.ghostSort(g.Type)}}
			}
		}
	}
	e.fv.fail("%s: unsupported modifies target %s", x.Pos, x)
	return nil
}

// havoc overwrites the given locations with fresh values.
func (fv *FV) havoc(st *State, locs []modLoc, tag string) {
	for _, m := range locs {
		if m.guard != nil && (m.kind == "fields" || m.kind == "mem") {
			before := st.heap.clone()
			g := m.guard
			m.guard = nil
			fv.havoc(st, []modLoc{m}, tag)
			for k, nv := range st.heap.arrays {
				ov, ok := before.arrays[k]
				if !ok {
					ov = before.initial(k)
				}
				if ov != nil && ov != nv {
					st.heap.arrays[k] = Ite(g, nv, ov)
				}
			}
			continue
		}
		switch m.kind {
		case "cell":
			if m.guard != nil {
				oldv := st.heap.load(m.typ, m.addr)
				fv.havocTyped(st, m.typ, m.addr, tag)
				newv := st.heap.load(m.typ, m.addr)
				st.heap.store(m.typ, m.addr, fv.iteValue(m.guard, newv, oldv))
			} else {
				fv.havocTyped(st, m.typ, m.addr, tag)
			}
		case "gcell":
			st.heap.writeCell(m.sort, "ghost", m.addr, fv.fresh(tag+"_g", m.sort))
		case "fields":
			fv.havocTyped(st, m.typ, m.addr, tag)
		case "mem":
			cs := fv.l.comps(m.typ)
			if cs == nil {
				fv.fail("havoc of composite-element array not supported")
			}
			fv.nfresh++
			j := BoundVar(fmt.Sprintf("j!hv%d", fv.nfresh), fv.l.idxSort())
			for k, c := range cs {
				oldRow := st.heap.elemRow(c.sort, k, m.addr)
				newRow := fv.fresh(tag+"_row", ArraySort(fv.l.idxSort(), c.sort))
				q := Forall([]*Term{j}, Implies(Not(And(fv.idxLe(m.lo, j), fv.idxLt(j, m.hi))), Eq(Select(newRow, j), Select(oldRow, j))))
				if q.Op == "forall" {
					q.Pats = [][]*Term{{Select(newRow, j)}}
				}
				st.assume(q)
				st.heap.setElemRow(c.sort, k, m.addr, newRow)
			}
		case "each":
			fv.havocEach(st, m, tag)
		case "allexcept":
			fv.havocAllExcept(st, m, tag)
		case "map":
			mt := m.typ.(*types.Map)
			ks := fv.l.comps(mt.Key())
			for i, c := range fv.l.comps(mt.Elem()) {
				key, a := fv.mapArr(st, mt, ks[0].sort, i, c.sort)
				st.heap.arrays[key] = Store(a, m.addr, fv.fresh(tag+"_map", a.Sort.Elem))
			}
			dk, dom := fv.mapDom(st, mt, ks[0].sort)
			st.heap.arrays[dk] = Store(dom, m.addr, fv.fresh(tag+"_mapdom", dom.Sort.Elem))
			lk, la := fv.mapLenArr(st)
			nl := fv.fresh(tag+"_maplen", IntSort)
			st.assume(Ge(nl, IntLit(0)))
			st.heap.arrays[lk] = Store(la, m.addr, nl)
		case "ghost":
			st.ghost[m.name] = fv.fresh(tag+"_"+m.name, m.sort)
		case "ghostidx":
			cur, ok := st.ghost[m.name]
			if !ok {
				cur = Var("G_"+sanitize(m.name)+"_0", m.sort)
			}
			st.ghost[m.name] = Store(cur, m.idx, fv.fresh(tag+"_"+m.name, m.sort.Elem))
		}
	}
}

func (fv *FV) havocTyped(st *State, t types.Type, addr *Term, tag string) {
	switch u := t.Underlying().(type) {
	case *types.Struct:
		owner := typeKey(t)
		for i := 0; i < u.NumFields(); i++ {
			fv.havocTyped(st, u.Field(i).Type(), Emb(addr, fieldID(u, owner, i)), tag)
		}
		// ghost fields of this struct
		if nt, ok := t.(*types.Named); ok {
			for _, g := range fv.P.Specs.GhostF {
				if g.Struct == nt.Obj().Name() && nt.Obj().Pkg() != nil && nt.Obj().Pkg().Path() == g.Pkg {
					e := &Env{fv: fv, pkg: g.Pkg, st: st}
					s := e.ghostSort(g.Type)
					st.heap.writeCell(s, "ghost", Emb(addr, ghostFieldID(g)), fv.fresh(tag+"_g", s))
				}
			}
		}
	case *types.Array:
		cs := fv.l.comps(u.Elem())
		if cs == nil {
			return
		}
		for k, c := range cs {
			st.heap.setElemRow(c.sort, k, addr, fv.fresh(tag+"_row", ArraySort(fv.l.idxSort(), c.sort)))
		}
	default:
		v := fv.freshValue(tag, t)
		st.heap.store(t, addr, v)
		fv.assumeType(st, v, t)
	}
}

// ---------------------------------------------------------------- ghost assignments

// applyGhostDefs performs the contract's ghost assignments on st. env is the post-state environment
// (old = pre-state of the call / function entry).
func (fv *FV) applyGhostDefs(env *Env, st *State, defs []GhostDef) {
	for _, gd := range defs {
		fv.applyGhostDef(env, st, gd)
	}
}

func (fv *FV) ghostCur(st *State, name string, s *Sort) *Term {
	if t, ok := st.ghost[name]; ok {
		return t
	}
	return Var("G_"+sanitize(name)+"_0", s)
}

func (fv *FV) applyGhostDef(env *Env, st *State, gd GhostDef) {
	ne := env.child()
	ne.st = st
	bound := map[string]*Term{}
	for _, v := range gd.Vars {
		t, err := fv.P.ResolveType(env.pkg, v.Type)
		var sort *Sort
		if err == nil {
			if cs := fv.l.comps(t); len(cs) == 1 {
				sort = cs[0].sort
			}
		}
		if sort == nil {
			sort = ne.ghostSort(v.Type)
		}
		fv.nfresh++
		bv := BoundVar(fmt.Sprintf("%s!g%d", sanitize(v.Name), fv.nfresh), sort)
		bound[v.Name] = bv
		var tt types.Type
		if err == nil {
			tt = t
		}
		ne.vars[v.Name] = TV{Scalar{bv}, tt}
	}
	// ghost field target
	if gd.Target.Kind == EField {
		locs := ne.evalLoc(gd.Target)
		if len(locs) != 1 || locs[0].kind != "gcell" {
			fv.fail("%s: ghostdef target %s is not a ghost field", gd.Pos, gd.Target)
		}
		rhs := ne.eval(gd.Rhs).V.(Scalar).T
		fv.flushSide(st)
		st.heap.writeCell(locs[0].sort, "ghost", locs[0].addr, rhs)
		return
	}
	// ghost map path: name[i1][i2]...
	var path []*Expr
	cur := gd.Target
	for cur.Kind == EIndex {
		path = append([]*Expr{cur.Args[1]}, path...)
		cur = cur.Args[0]
	}
	if cur.Kind != EIdent {
		fv.fail("%s: bad ghostdef target %s", gd.Pos, gd.Target)
	}
	g, ok := fv.P.Specs.GhostV[cur.Name]
	if !ok {
		fv.fail("%s: ghostdef target %s is not a ghost variable", gd.Pos, cur.Name)
	}
	gs := ne.ghostSort(g.Type)
	old := fv.ghostCur(st, g.Name, gs)
	rhs := ne.eval(gd.Rhs).V.(Scalar).T
	fv.flushSide(st)
	var build func(curArr *Term, depth int) *Term
	build = func(curArr *Term, depth int) *Term {
		if depth == len(path) {
			return rhs
		}
		pe := path[depth]
		if pe.Kind == EIdent {
			if bv, isBound := bound[pe.Name]; isBound {
				// pointwise definition over every key: fresh array with a defining axiom
				if depth != len(path)-1 {
					fv.fail("%s: a bound index must be the last index of a ghostdef target", gd.Pos)
				}
				na := fv.fresh("gd_"+g.Name, curArr.Sort)
				q := Forall([]*Term{bv}, Eq(Select(na, bv), rhs))
				if q.Op == "forall" {
					q.Pats = [][]*Term{{Select(na, bv)}}
				}
				st.assume(q)
				return na
			}
		}
		idx := ne.eval(pe).V.(Scalar).T
		if idx.Sort != curArr.Sort.Idx {
			fv.fail("%s: ghostdef index sort %s, want %s", gd.Pos, idx.Sort, curArr.Sort.Idx)
		}
		return Store(curArr, idx, build(Select(curArr, idx), depth+1))
	}
	st.ghost[g.Name] = build(old, 0)
}

// havocEach replaces the cell arrays by fresh ones that agree with the old ones outside the target set.
func (fv *FV) havocEach(st *State, m modLoc, tag string) {
	fv.nfresh++
	a := BoundVar(fmt.Sprintf("a!ea%d", fv.nfresh), RefSort)
	tgt := eachTarget(m, a)
	for _, key := range fv.cellKeys(st) {
		cur := st.heap.cellArrByKey(key)
		nw := fv.fresh(tag+"_each_"+key, cur.Sort)
		q := Forall([]*Term{a}, Implies(Not(tgt), Eq(Select(nw, a), Select(cur, a))))
		if q.Op == "forall" {
			q.Pats = [][]*Term{{Select(nw, a)}}
		}
		st.assume(q)
		st.heap.arrays[key] = nw
	}
}

// havocAllExcept replaces the whole heap and ghost state by fresh ones that agree with the old ones on the
// protected cells (fields of the excepted struct types), protected maps and protected ghost variables.
func (fv *FV) havocAllExcept(st *State, m modLoc, tag string) {
	before := st.heap.clone()
	ghostBefore := map[string]*Term{}
	for k, v := range st.ghost {
		ghostBefore[k] = v
	}
	fv.nfresh++
	a := BoundVar(fmt.Sprintf("a!ax%d", fv.nfresh), RefSort)
	prot := exceptTarget(m, a)
	for _, p := range st.priv {
		// variables of the caller that no callee can reach
		prot = Or(prot, Eq(mk("rootid", IntSort, a), mk("rootid", IntSort, p)))
	}
	keys := fv.allKeys(st)
	for key := range keys {
		switch {
		case strings.HasPrefix(key, "H:"):
			cur := st.heap.cellArrByKey(key)
			nw := fv.fresh(tag+"_all_"+key, cur.Sort)
			q := Forall([]*Term{a}, Implies(prot, Eq(Select(nw, a), Select(cur, a))))
			if q.Op == "forall" {
				q.Pats = [][]*Term{{Select(nw, a)}}
			}
			st.assume(q)
			st.heap.arrays[key] = nw
		case strings.HasPrefix(key, "M:"):
			parts := strings.SplitN(key[2:], "#", 2)
			k := 0
			fmt.Sscanf(parts[1], "%d", &k)
			_, cur := st.heap.elemArr(sortFromKey(parts[0]), k)
			st.heap.arrays[key] = fv.fresh(tag+"_all_"+key, cur.Sort)
		case strings.HasPrefix(key, "MAP:") || strings.HasPrefix(key, "MAPDOM:"):
			tk := strings.TrimPrefix(strings.TrimPrefix(key, "MAPDOM:"), "MAP:")
			if i := strings.Index(tk, "#"); i >= 0 {
				tk = tk[:i]
			}
			if m.exceptMaps[tk] {
				continue
			}
			cur := st.heap.arrays[key]
			if cur == nil {
				cur = keyInit[key]
			}
			if cur == nil {
				continue
			}
			st.heap.arrays[key] = fv.fresh(tag+"_all_map", cur.Sort)
		case key == "MAPLEN":
			st.heap.arrays[key] = fv.fresh(tag+"_all_maplen", ArraySort(RefSort, IntSort))
		}
	}
	for name, g := range fv.P.Specs.GhostV {
		if m.exceptGhost[name] {
			continue
		}
		e := &Env{fv: fv, pkg: g.Pkg, st: st}
		st.ghost[name] = fv.fresh(tag+"_all_"+name, e.ghostSort(g.Type))
	}
	if m.guard != nil {
		for k, nv := range st.heap.arrays {
			ov, ok := before.arrays[k]
			if !ok {
				ov = before.initial(k)
			}
			if ov != nil && ov != nv && ov.Sort == nv.Sort {
				st.heap.arrays[k] = Ite(m.guard, nv, ov)
			}
		}
		for name, nv := range st.ghost {
			ov, ok := ghostBefore[name]
			if !ok {
				ov = Var("G_"+sanitize(name)+"_0", nv.Sort)
			}
			if ov != nv {
				st.ghost[name] = Ite(m.guard, nv, ov)
			}
		}
	}
}
