package main

// Contract language: lexer, expression parser, contract-file parser.

import (
	"fmt"
	"math/big"
	"os"
	"strconv"
	"strings"
	"unicode"
)

// ---------------------------------------------------------------- AST

type ExprKind int

const (
	EIdent ExprKind = iota
	EInt
	EString
	EUnary
	EBinary
	ETernary
	ECall
	EField
	EIndex
	ESlice
	EQuant
	EOld
	ELet
	EDeref
)

type BoundDecl struct {
	Name string
	Type string // type text; "" = int
}

type Expr struct {
	Kind ExprKind
	Op   string
	Name string
	Val  *big.Int
	Args []*Expr // nil entries allowed for ESlice bounds
	Vars []BoundDecl
	Pats [][]*Expr
	Pos  string
	Text string
	// Props: property ids a clause was tagged with ("ensures [C18] ..."): its proof is demanded only by the checks of
	// those properties (callers still assume it); empty = every check that verifies the function demands it
	Props []string
}

func (e *Expr) String() string {
	if e == nil {
		return ""
	}
	if e.Text != "" {
		return e.Text
	}
	switch e.Kind {
	case EIdent:
		return e.Name
	case EInt:
		return e.Val.String()
	case EString:
		return strconv.Quote(e.Name)
	case EUnary:
		return e.Op + e.Args[0].String()
	case EBinary:
		return "(" + e.Args[0].String() + " " + e.Op + " " + e.Args[1].String() + ")"
	case ETernary:
		return "(" + e.Args[0].String() + " ? " + e.Args[1].String() + " : " + e.Args[2].String() + ")"
	case ECall:
		var as []string
		for _, a := range e.Args {
			as = append(as, a.String())
		}
		return e.Name + "(" + strings.Join(as, ", ") + ")"
	case EField:
		return e.Args[0].String() + "." + e.Name
	case EIndex:
		return e.Args[0].String() + "[" + e.Args[1].String() + "]"
	case ESlice:
		return e.Args[0].String() + "[" + e.Args[1].String() + ":" + e.Args[2].String() + "]"
	case EQuant:
		var vs []string
		for _, v := range e.Vars {
			vs = append(vs, v.Name+" "+v.Type)
		}
		return "(" + e.Op + " " + strings.Join(vs, ", ") + " :: " + e.Args[0].String() + ")"
	case EOld:
		return "old(" + e.Args[0].String() + ")"
	case ELet:
		return "(let " + e.Name + " := " + e.Args[0].String() + " in " + e.Args[1].String() + ")"
	case EDeref:
		return "*" + e.Args[0].String()
	}
	return "?"
}

// ---------------------------------------------------------------- lexer

type tok struct {
	kind string // ident, int, string, op, eof
	text string
	pos  int
}

func lex(src string) ([]tok, error) {
	var toks []tok
	i := 0
	rs := []rune(src)
	for i < len(rs) {
		c := rs[i]
		switch {
		case unicode.IsSpace(c):
			i++
		case unicode.IsLetter(c) || c == '_':
			j := i
			for j < len(rs) && (unicode.IsLetter(rs[j]) || unicode.IsDigit(rs[j]) || rs[j] == '_' || rs[j] == '$' || rs[j] == '#') {
				j++
			}
			toks = append(toks, tok{"ident", string(rs[i:j]), i})
			i = j
		case unicode.IsDigit(c):
			j := i
			for j < len(rs) && (unicode.IsDigit(rs[j]) || unicode.IsLetter(rs[j]) || rs[j] == '_') {
				j++
			}
			toks = append(toks, tok{"int", string(rs[i:j]), i})
			i = j
		case c == '"':
			j := i + 1
			for j < len(rs) && rs[j] != '"' {
				if rs[j] == '\\' {
					j++
				}
				j++
			}
			if j >= len(rs) {
				return nil, fmt.Errorf("unterminated string")
			}
			s, err := strconv.Unquote(string(rs[i : j+1]))
			if err != nil {
				return nil, err
			}
			toks = append(toks, tok{"string", s, i})
			i = j + 1
		default:
			ops := []string{"<==>", "==>", ":=", "::", "==", "!=", "<=", ">=", "&&", "||", "<<", ">>", "&^", "..."}
			matched := false
			for _, op := range ops {
				if strings.HasPrefix(string(rs[i:min(i+len(op), len(rs))]), op) {
					toks = append(toks, tok{"op", op, i})
					i += len([]rune(op))
					matched = true
					break
				}
			}
			if !matched {
				toks = append(toks, tok{"op", string(c), i})
				i++
			}
		}
	}
	toks = append(toks, tok{"eof", "", len(rs)})
	return toks, nil
}

// ---------------------------------------------------------------- expression parser

type parser struct {
	toks []tok
	p    int
	src  string
	pos  string
}

func (p *parser) peek() tok { return p.toks[p.p] }
func (p *parser) next() tok { t := p.toks[p.p]; p.p++; return t }
func (p *parser) isOp(s string) bool {
	t := p.peek()
	return t.kind == "op" && t.text == s
}
func (p *parser) isIdent(s string) bool {
	t := p.peek()
	return t.kind == "ident" && t.text == s
}
func (p *parser) expectOp(s string) {
	t := p.next()
	if t.kind != "op" || t.text != s {
		panic(fmt.Sprintf("%s: expected %q, found %q in %q", p.pos, s, t.text, p.src))
	}
}

func ParseExpr(src, pos string) (e *Expr, err error) {
	defer func() {
		if r := recover(); r != nil {
			err = fmt.Errorf("%v", r)
		}
	}()
	toks, lerr := lex(src)
	if lerr != nil {
		return nil, lerr
	}
	p := &parser{toks: toks, src: src, pos: pos}
	e = p.expr()
	if p.peek().kind != "eof" {
		panic(fmt.Sprintf("%s: unexpected %q in %q", pos, p.peek().text, src))
	}
	e.Text = strings.Join(strings.Fields(src), " ")
	return e, nil
}

func (p *parser) expr() *Expr { return p.iff() }

func (p *parser) iff() *Expr {
	l := p.implies()
	for p.isOp("<==>") {
		p.next()
		r := p.implies()
		l = &Expr{Kind: EBinary, Op: "<==>", Args: []*Expr{l, r}, Pos: p.pos}
	}
	return l
}

func (p *parser) implies() *Expr {
	l := p.ternary()
	if p.isOp("==>") {
		p.next()
		r := p.implies()
		return &Expr{Kind: EBinary, Op: "==>", Args: []*Expr{l, r}, Pos: p.pos}
	}
	return l
}

func (p *parser) ternary() *Expr {
	c := p.binary(0)
	if p.isOp("?") {
		p.next()
		a := p.ternary()
		p.expectOp(":")
		b := p.ternary()
		return &Expr{Kind: ETernary, Args: []*Expr{c, a, b}, Pos: p.pos}
	}
	return c
}

var binPrec = map[string]int{
	"||": 1, "&&": 2,
	"==": 3, "!=": 3, "<": 3, "<=": 3, ">": 3, ">=": 3,
	"+": 4, "-": 4, "|": 4, "^": 4,
	"*": 5, "/": 5, "%": 5, "<<": 5, ">>": 5, "&": 5, "&^": 5,
}

func (p *parser) binary(minPrec int) *Expr {
	l := p.unary()
	for {
		t := p.peek()
		if t.kind != "op" {
			return l
		}
		prec, ok := binPrec[t.text]
		if !ok || prec <= minPrec {
			return l
		}
		p.next()
		r := p.binary(prec)
		l = &Expr{Kind: EBinary, Op: t.text, Args: []*Expr{l, r}, Pos: p.pos}
	}
}

func (p *parser) unary() *Expr {
	t := p.peek()
	if t.kind == "op" {
		switch t.text {
		case "!", "-", "^":
			p.next()
			return &Expr{Kind: EUnary, Op: t.text, Args: []*Expr{p.unary()}, Pos: p.pos}
		case "*":
			p.next()
			return &Expr{Kind: EDeref, Args: []*Expr{p.unary()}, Pos: p.pos}
		}
	}
	return p.postfix()
}

func (p *parser) typeText() string {
	// consumes a type: sequence of tokens up to "::" or "," at depth 0
	var sb strings.Builder
	depth := 0
	for {
		t := p.peek()
		if t.kind == "eof" {
			break
		}
		if t.kind == "op" {
			if depth == 0 && (t.text == "::" || t.text == "," || t.text == ")" || t.text == ":=") {
				break
			}
			if t.text == "[" || t.text == "(" {
				depth++
			}
			if t.text == "]" || t.text == ")" {
				depth--
			}
		}
		sb.WriteString(t.text)
		p.next()
	}
	return sb.String()
}

func (p *parser) primary() *Expr {
	t := p.next()
	switch t.kind {
	case "int":
		s := strings.ReplaceAll(t.text, "_", "")
		v, ok := new(big.Int).SetString(s, 0)
		if !ok {
			panic(fmt.Sprintf("%s: bad integer %q", p.pos, t.text))
		}
		return &Expr{Kind: EInt, Val: v, Pos: p.pos}
	case "string":
		return &Expr{Kind: EString, Name: t.text, Pos: p.pos}
	case "ident":
		switch t.text {
		case "forall", "exists":
			var vars []BoundDecl
			for {
				n := p.next()
				if n.kind != "ident" {
					panic(fmt.Sprintf("%s: expected bound variable name in %q", p.pos, p.src))
				}
				ty := ""
				if !p.isOp(",") && !p.isOp("::") {
					ty = p.typeText()
				}
				vars = append(vars, BoundDecl{n.text, ty})
				if p.isOp(",") {
					p.next()
					continue
				}
				break
			}
			p.expectOp("::")
			body := p.expr()
			return &Expr{Kind: EQuant, Op: t.text, Vars: vars, Args: []*Expr{body}, Pos: p.pos}
		case "let":
			n := p.next()
			p.expectOp(":=")
			v := p.expr()
			if !p.isIdent("in") {
				panic(fmt.Sprintf("%s: expected 'in' in let: %q", p.pos, p.src))
			}
			p.next()
			body := p.expr()
			return &Expr{Kind: ELet, Name: n.text, Args: []*Expr{v, body}, Pos: p.pos}
		case "old":
			if p.isOp("(") {
				p.next()
				e := p.expr()
				p.expectOp(")")
				return &Expr{Kind: EOld, Args: []*Expr{e}, Pos: p.pos}
			}
		}
		if p.isOp("(") {
			p.next()
			var args []*Expr
			for !p.isOp(")") {
				args = append(args, p.expr())
				if p.isOp(",") {
					p.next()
				}
			}
			p.expectOp(")")
			return &Expr{Kind: ECall, Name: t.text, Args: args, Pos: p.pos}
		}
		return &Expr{Kind: EIdent, Name: t.text, Pos: p.pos}
	case "op":
		if t.text == "(" {
			e := p.expr()
			p.expectOp(")")
			return e
		}
	}
	panic(fmt.Sprintf("%s: unexpected %q in %q", p.pos, t.text, p.src))
}

func (p *parser) postfix() *Expr {
	e := p.primary()
	for {
		switch {
		case p.isOp("."):
			p.next()
			n := p.next()
			if n.kind == "op" && n.text == "*" {
				e = &Expr{Kind: EField, Name: "*", Args: []*Expr{e}, Pos: p.pos}
				continue
			}
			if n.kind != "ident" {
				panic(fmt.Sprintf("%s: expected field name after '.' in %q", p.pos, p.src))
			}
			if p.isOp("(") && e.Kind == EIdent {
				// qualified call pkg.F(args)
				p.next()
				var args []*Expr
				for !p.isOp(")") {
					args = append(args, p.expr())
					if p.isOp(",") {
						p.next()
					}
				}
				p.expectOp(")")
				e = &Expr{Kind: ECall, Name: e.Name + "." + n.text, Args: args, Pos: p.pos}
				continue
			}
			e = &Expr{Kind: EField, Name: n.text, Args: []*Expr{e}, Pos: p.pos}
		case p.isOp("["):
			p.next()
			var lo, hi *Expr
			if !p.isOp(":") {
				lo = p.expr()
			}
			if p.isOp(":") {
				p.next()
				if !p.isOp("]") {
					hi = p.expr()
				}
				p.expectOp("]")
				e = &Expr{Kind: ESlice, Args: []*Expr{e, lo, hi}, Pos: p.pos}
			} else {
				p.expectOp("]")
				e = &Expr{Kind: EIndex, Args: []*Expr{e, lo}, Pos: p.pos}
			}
		default:
			return e
		}
	}
}

// ---------------------------------------------------------------- contract files

type Param struct {
	Name string
	Type string
}

type MacroDef struct {
	Name   string
	Params []Param
	Result string
	Body   *Expr
	Pkg    string
	Pos    string
	Opaque bool
}

type LoopContract struct {
	Ordinal    int
	Invariants []*Expr
	Decreases  *Expr
	Modifies   []*Expr
	HasMod     bool
}

// GhostDef is a ghost assignment performed at every return of the function (and replayed at call sites):
// [forall v... ::] target := rhs, where target is a ghost map element path or a ghost field.
type GhostDef struct {
	Vars   []BoundDecl
	Target *Expr
	Rhs    *Expr
	Pos    string
}

// ModEach: modifies-each x T where cond :: f1, f2 — the listed fields of every object x satisfying cond
// (evaluated in the pre-state).
type ModEach struct {
	Var    string
	Type   string
	Cond   *Expr
	Fields []string
	Pos    string
}

// CallAssert: "assert after <callee> #k: expr" — an intermediate assertion proved right after the k-th call
// of the named callee (cut point: proved once, then available as an assumption).
type CallAssert struct {
	Callee string
	Ord    int
	Expr   *Expr
	Pos    string
	Let    string // "let NAME after callee #k := expr": binds a ghost local instead of asserting
	Stop   bool   // "stop after callee #k": paths end here (prefix verification)
	Loop   int    // "assert at loop N: expr" / "stop at loop N"
}

// ModAllExcept: "modifies-all-except T1, T2, ... [if cond]" — every heap location may change except the fields of
// objects of the listed struct types (and maps of the listed map types); ghost state is havocked except the
// listed ghost variables (written as ghost:name).
type ModAllExcept struct {
	Types []string
	Guard *Expr
	Pos   string
}

type CallbackContract struct { // contract of a function-typed parameter
	Param    string
	Requires []*Expr
	Ensures  []*Expr
	Modifies []*Expr
}

type Contract struct {
	Pkg            string // import path
	Key            string // "(*Buffer).Write", "New", or "Iface.Method" for interface methods
	Recv           *Param
	RecvPtr        bool
	Params         []Param
	Results        []Param
	Requires       []*Expr
	Ensures        []*Expr
	Assumed        []*Expr // postconditions assumed for callers, not proved on the body
	GhostDefs      []GhostDef
	ModEach        []ModEach
	ModAll         []ModAllExcept
	Asserts        []CallAssert
	ArithUnchecked string // reason: signed overflow assumed not to occur in this function
	Modifies       []*Expr
	HasMod         bool
	IsFuncType     bool
	PanicWhen      *Expr
	PanicMaybe     string // panics are possible under conditions the contract does not characterise (reason)
	Loops          map[int]*LoopContract
	Mode           Mode
	Trusted        bool // assumed, body not verified
	Inline         bool
	IsIface        bool
	Lemma          bool
	Pos            string
	File           string
	Fresh          []string // results that are freshly allocated
	Callbacks      map[string]*CallbackContract
	Ghost          []string
	NoVerify       string // reason body is not verified (trusted in-repo)
	Variants       []string
}

type GhostField struct {
	Pkg    string
	Struct string
	Name   string
	Type   string
}

type GhostVar struct {
	Pkg  string
	Name string
	Type string
	Log  bool // bookkeeping ghost ("ghost log"): writing it is never a frame violation (it records events, e.g. pool releases)
}

type Axiom struct {
	Pkg  string
	Expr *Expr
	Pos  string
}

type SpecSet struct {
	Imports   map[string]map[string]string // package path -> alias -> import path
	Axioms    []Axiom
	Contracts map[string]*Contract // key: pkgpath + "::" + Key
	Macros    map[string]*MacroDef // key: pkgpath + "::" + name ; also global "::name"
	GhostF    []GhostField
	GhostV    map[string]*GhostVar
	Files     []string
	Order     []string
}

func NewSpecSet() *SpecSet {
	return &SpecSet{Contracts: map[string]*Contract{}, Macros: map[string]*MacroDef{}, GhostV: map[string]*GhostVar{}}
}

var clauseKeywords = map[string]bool{
	"pred": true, "pure": true, "func": true, "iface": true, "requires": true, "ensures": true, "modifies": true,
	"invariant": true, "loop": true, "decreases": true, "panics": true, "mode": true, "ghost": true,
	"trusted": true, "inline": true, "assumes": true, "axiom": true, "ghostdef": true, "arith": true, "modifies-each": true, "modifies-all-except": true, "assert": true, "let": true, "stop": true, "import": true, "package": true, "fresh": true, "lemma": true, "callback": true, "noverify": true, "opaque": true, "functype": true,
}

// LoadSpecFile parses one contract file. pkgPath is the default package for the file.
func (ss *SpecSet) LoadSpecFile(path, pkgPath string, trustedFile bool) error {
	data, err := os.ReadFile(path)
	if err != nil {
		return err
	}
	ss.Files = append(ss.Files, path)
	type stmt struct {
		text string
		line int
	}
	var stmts []stmt
	for i, raw := range strings.Split(string(data), "\n") {
		line := strings.TrimSpace(raw)
		var body string
		switch {
		case strings.HasPrefix(line, "//@"):
			body = line[3:]
		case strings.HasPrefix(line, "// @"):
			body = line[4:]
		default:
			continue
		}
		if k := strings.Index(body, "//"); k >= 0 {
			body = body[:k]
		}
		body = strings.TrimSpace(body)
		if body == "" {
			continue
		}
		first := body
		if k := strings.IndexAny(body, " \t(:"); k >= 0 {
			first = body[:k]
		}
		if clauseKeywords[first] {
			stmts = append(stmts, stmt{body, i + 1})
		} else {
			if len(stmts) == 0 {
				return fmt.Errorf("%s:%d: continuation without clause", path, i+1)
			}
			stmts[len(stmts)-1].text += " " + body
		}
	}
	var cur *Contract
	var curLoop *LoopContract
	var curCb *CallbackContract
	for _, s := range stmts {
		pos := fmt.Sprintf("%s:%d", path, s.line)
		kw, rest := s.text, ""
		if k := strings.IndexAny(s.text, " \t"); k >= 0 {
			kw, rest = s.text[:k], strings.TrimSpace(s.text[k+1:])
		}
		parse := func(src string) (*Expr, error) { return ParseExpr(src, pos) }
		switch kw {
		case "package":
			pkgPath = rest
			cur, curLoop, curCb = nil, nil, nil
		case "import":
			f := strings.Fields(rest)
			if len(f) != 2 {
				return fmt.Errorf("%s: import needs 'alias \"path\"'", pos)
			}
			if ss.Imports == nil {
				ss.Imports = map[string]map[string]string{}
			}
			if ss.Imports[pkgPath] == nil {
				ss.Imports[pkgPath] = map[string]string{}
			}
			ss.Imports[pkgPath][f[0]] = strings.Trim(f[1], "\"")
		case "axiom":
			cur, curLoop, curCb = nil, nil, nil
			e, err := parse(rest)
			if err != nil {
				return err
			}
			ss.Axioms = append(ss.Axioms, Axiom{Pkg: pkgPath, Expr: e, Pos: pos})
		case "pred", "pure", "opaque":
			cur, curLoop, curCb = nil, nil, nil
			opaque := false
			if kw == "opaque" {
				opaque = true
				if k := strings.IndexAny(rest, " \t"); k >= 0 {
					rest = strings.TrimSpace(rest[k+1:])
				}
			}
			k := strings.Index(rest, ":=")
			if k < 0 {
				return fmt.Errorf("%s: %s without ':='", pos, kw)
			}
			head, bodySrc := strings.TrimSpace(rest[:k]), rest[k+2:]
			op := strings.Index(head, "(")
			cp := matchParen(head, op)
			if op < 0 || cp < 0 {
				return fmt.Errorf("%s: bad %s header %q", pos, kw, head)
			}
			m := &MacroDef{Name: strings.TrimSpace(head[:op]), Params: parseParams(head[op+1 : cp]), Result: strings.TrimSpace(head[cp+1:]), Pkg: pkgPath, Pos: pos, Opaque: opaque}
			b, err := parse(bodySrc)
			if err != nil {
				return err
			}
			m.Body = b
			ss.Macros[pkgPath+"::"+m.Name] = m
		case "ghost":
			cur, curLoop, curCb = nil, nil, nil
			f := strings.Fields(rest)
			if len(f) >= 1 && f[0] == "field" {
				// ghost field (c *conn) name type
				op := strings.Index(rest, "(")
				cp := strings.Index(rest, ")")
				recv := parseParams(rest[op+1 : cp])
				tail := strings.Fields(rest[cp+1:])
				if len(recv) != 1 || len(tail) < 2 {
					return fmt.Errorf("%s: bad ghost field", pos)
				}
				ss.GhostF = append(ss.GhostF, GhostField{Pkg: pkgPath, Struct: strings.TrimPrefix(recv[0].Type, "*"), Name: tail[0], Type: strings.Join(tail[1:], " ")})
			} else if len(f) >= 3 && (f[0] == "var" || f[0] == "log") {
				ss.GhostV[f[1]] = &GhostVar{Pkg: pkgPath, Name: f[1], Type: strings.Join(f[2:], " "), Log: f[0] == "log"}
			} else {
				return fmt.Errorf("%s: bad ghost declaration", pos)
			}
		case "func", "iface", "lemma", "functype":
			c, err := parseFuncHeader(kw, rest, pos)
			if err != nil {
				return err
			}
			c.Pkg = pkgPath
			c.File = path
			c.Trusted = trustedFile
			c.Loops = map[int]*LoopContract{}
			c.Callbacks = map[string]*CallbackContract{}
			key := pkgPath + "::" + c.Key
			if _, dup := ss.Contracts[key]; dup {
				return fmt.Errorf("%s: duplicate contract for %s", pos, key)
			}
			ss.Contracts[key] = c
			ss.Order = append(ss.Order, key)
			cur, curLoop, curCb = c, nil, nil
		default:
			if cur == nil {
				return fmt.Errorf("%s: clause %q outside a func contract", pos, kw)
			}
			switch kw {
			case "requires":
				e, err := parse(rest)
				if err != nil {
					return err
				}
				if curCb != nil {
					curCb.Requires = append(curCb.Requires, e)
				} else {
					cur.Requires = append(cur.Requires, e)
				}
			case "ensures":
				var props []string
				if r := strings.TrimSpace(rest); strings.HasPrefix(r, "[") {
					if k := strings.Index(r, "]"); k > 0 {
						for _, p := range strings.Split(r[1:k], ",") {
							props = append(props, strings.TrimSpace(p))
						}
						rest = r[k+1:]
					}
				}
				e, err := parse(rest)
				if err != nil {
					return err
				}
				e.Props = props
				if curCb != nil {
					curCb.Ensures = append(curCb.Ensures, e)
				} else {
					cur.Ensures = append(cur.Ensures, e)
				}
			case "ghostdef":
				gd := GhostDef{Pos: pos}
				body := rest
				if strings.HasPrefix(body, "forall ") {
					k := strings.Index(body, "::")
					if k < 0 {
						return fmt.Errorf("%s: ghostdef forall without '::'", pos)
					}
					for _, v := range parseParams(body[len("forall "):k]) {
						gd.Vars = append(gd.Vars, BoundDecl{Name: v.Name, Type: v.Type})
					}
					body = body[k+2:]
				}
				k := strings.Index(body, ":=")
				if k < 0 {
					return fmt.Errorf("%s: ghostdef without ':='", pos)
				}
				t, err := parse(body[:k])
				if err != nil {
					return err
				}
				r, err := parse(body[k+2:])
				if err != nil {
					return err
				}
				gd.Target, gd.Rhs = t, r
				cur.GhostDefs = append(cur.GhostDefs, gd)
			case "modifies-all-except":
				ma := ModAllExcept{Pos: pos}
				body := rest
				if k := strings.Index(body, " if "); k >= 0 {
					g, err := parse(body[k+4:])
					if err != nil {
						return err
					}
					ma.Guard = g
					body = body[:k]
				}
				for _, t := range splitTop(body) {
					ma.Types = append(ma.Types, strings.TrimSpace(t))
				}
				cur.ModAll = append(cur.ModAll, ma)
				cur.HasMod = true
			case "modifies-each":
				k := strings.Index(rest, "::")
				w := strings.Index(rest, " where ")
				if k < 0 || w < 0 || w > k {
					return fmt.Errorf("%s: modifies-each needs 'x T where cond :: fields'", pos)
				}
				vp := parseParams(rest[:w])
				if len(vp) != 1 {
					return fmt.Errorf("%s: modifies-each needs one variable", pos)
				}
				ce, err := parse(rest[w+7 : k])
				if err != nil {
					return err
				}
				me := ModEach{Var: vp[0].Name, Type: vp[0].Type, Cond: ce, Pos: pos}
				for _, f := range splitTop(rest[k+2:]) {
					me.Fields = append(me.Fields, strings.TrimSpace(f))
				}
				cur.ModEach = append(cur.ModEach, me)
				cur.HasMod = true
			case "let":
				// let NAME after <callee> #k := expr
				k := strings.Index(rest, ":=")
				a := strings.Index(rest, " after ")
				h := strings.Index(rest, "#")
				if k < 0 || a < 0 || h < 0 || !(a < h && h < k) {
					return fmt.Errorf("%s: let needs 'NAME after <callee> #k := expr'", pos)
				}
				ord, err := strconv.Atoi(strings.TrimSpace(rest[h+1 : k]))
				if err != nil {
					return fmt.Errorf("%s: bad call ordinal in let", pos)
				}
				e, err := parse(rest[k+2:])
				if err != nil {
					return err
				}
				cur.Asserts = append(cur.Asserts, CallAssert{Callee: strings.TrimSpace(rest[a+7 : h]), Ord: ord, Expr: e, Pos: pos, Let: strings.TrimSpace(rest[:a])})
			case "stop":
				r := strings.TrimSpace(rest)
				if strings.HasPrefix(r, "at loop") {
					n, err := strconv.Atoi(strings.TrimSpace(strings.TrimPrefix(r, "at loop")))
					if err != nil {
						return fmt.Errorf("%s: bad loop ordinal in stop", pos)
					}
					cur.Asserts = append(cur.Asserts, CallAssert{Loop: n, Stop: true, Pos: pos})
					break
				}
				r = strings.TrimSpace(strings.TrimPrefix(r, "after"))
				h := strings.Index(r, "#")
				if h < 0 {
					return fmt.Errorf("%s: stop needs 'after <callee> #k' or 'at loop N'", pos)
				}
				ord, err := strconv.Atoi(strings.TrimSpace(r[h+1:]))
				if err != nil {
					return fmt.Errorf("%s: bad call ordinal in stop", pos)
				}
				cur.Asserts = append(cur.Asserts, CallAssert{Callee: strings.TrimSpace(r[:h]), Ord: ord, Stop: true, Pos: pos})
			case "assert":
				if strings.HasPrefix(strings.TrimSpace(rest), "at loop") {
					r := strings.TrimSpace(strings.TrimPrefix(strings.TrimSpace(rest), "at loop"))
					k := strings.Index(r, ":")
					if k < 0 {
						return fmt.Errorf("%s: assert at loop needs ':'", pos)
					}
					n, err := strconv.Atoi(strings.TrimSpace(r[:k]))
					if err != nil {
						return fmt.Errorf("%s: bad loop ordinal in assert", pos)
					}
					e, err := parse(r[k+1:])
					if err != nil {
						return err
					}
					cur.Asserts = append(cur.Asserts, CallAssert{Loop: n, Expr: e, Pos: pos})
					break
				}
				// assert after <callee> #k: expr
				r := strings.TrimSpace(strings.TrimPrefix(rest, "after"))
				k := strings.Index(r, ":")
				h := strings.Index(r, "#")
				if k < 0 || h < 0 || h > k {
					return fmt.Errorf("%s: assert needs 'after <callee> #k: expr'", pos)
				}
				ord, err := strconv.Atoi(strings.TrimSpace(r[h+1 : k]))
				if err != nil {
					return fmt.Errorf("%s: bad call ordinal in assert", pos)
				}
				e, err := parse(r[k+1:])
				if err != nil {
					return err
				}
				cur.Asserts = append(cur.Asserts, CallAssert{Callee: strings.TrimSpace(r[:h]), Ord: ord, Expr: e, Pos: pos})
			case "arith":
				cur.ArithUnchecked = strings.TrimSpace(strings.TrimPrefix(rest, "unchecked"))
				if cur.ArithUnchecked == "" {
					cur.ArithUnchecked = "unspecified"
				}
			case "assumes":
				e, err := parse(rest)
				if err != nil {
					return err
				}
				cur.Assumed = append(cur.Assumed, e)
			case "modifies":
				var locs []*Expr
				if rest != "nothing" {
					for _, part := range splitTop(rest) {
						var guard *Expr
						if k := strings.Index(part, " if "); k >= 0 {
							g, err := parse(part[k+4:])
							if err != nil {
								return err
							}
							guard = g
							part = part[:k]
						}
						e, err := parse(part)
						if err != nil {
							return err
						}
						if guard != nil {
							e = &Expr{Kind: EBinary, Op: "if", Args: []*Expr{e, guard}, Pos: pos, Text: e.Text + " if " + guard.Text}
						}
						locs = append(locs, e)
					}
				}
				if curCb != nil {
					curCb.Modifies = append(curCb.Modifies, locs...)
				} else if curLoop != nil {
					curLoop.Modifies = append(curLoop.Modifies, locs...)
					curLoop.HasMod = true
				} else {
					cur.Modifies = append(cur.Modifies, locs...)
					cur.HasMod = true
				}
			case "invariant":
				if curLoop == nil {
					return fmt.Errorf("%s: invariant outside loop", pos)
				}
				e, err := parse(rest)
				if err != nil {
					return err
				}
				curLoop.Invariants = append(curLoop.Invariants, e)
			case "decreases":
				if curLoop == nil {
					return fmt.Errorf("%s: decreases outside loop", pos)
				}
				e, err := parse(rest)
				if err != nil {
					return err
				}
				curLoop.Decreases = e
			case "loop":
				nstr := strings.TrimSuffix(strings.TrimSpace(rest), ":")
				n, err := strconv.Atoi(strings.TrimSpace(nstr))
				if err != nil {
					return fmt.Errorf("%s: bad loop ordinal %q", pos, rest)
				}
				curLoop = &LoopContract{Ordinal: n}
				cur.Loops[n] = curLoop
				curCb = nil
			case "callback":
				name := strings.TrimSuffix(strings.TrimSpace(rest), ":")
				curCb = &CallbackContract{Param: name}
				cur.Callbacks[name] = curCb
				curLoop = nil
			case "panics":
				if strings.HasPrefix(strings.TrimSpace(rest), "maybe") {
					cur.PanicMaybe = strings.TrimSpace(strings.TrimPrefix(strings.TrimSpace(rest), "maybe"))
					if cur.PanicMaybe == "" {
						cur.PanicMaybe = "unspecified"
					}
					break
				}
				rest = strings.TrimSpace(strings.TrimPrefix(rest, "when"))
				e, err := parse(rest)
				if err != nil {
					return err
				}
				cur.PanicWhen = e
			case "mode":
				if strings.TrimSpace(rest) == "bv" {
					cur.Mode = ModeBV
				}
			case "trusted":
				cur.Trusted = true
			case "noverify":
				cur.NoVerify = rest
				cur.Trusted = true
			case "inline":
				cur.Inline = true
			case "fresh":
				for _, n := range splitTop(rest) {
					cur.Fresh = append(cur.Fresh, strings.TrimSpace(n))
				}
			default:
				return fmt.Errorf("%s: unknown clause %q", pos, kw)
			}
		}
	}
	return nil
}

func matchParen(s string, open int) int {
	if open < 0 {
		return -1
	}
	depth := 0
	for i := open; i < len(s); i++ {
		switch s[i] {
		case '(':
			depth++
		case ')':
			depth--
			if depth == 0 {
				return i
			}
		}
	}
	return -1
}

func splitTop(s string) []string {
	var out []string
	depth := 0
	last := 0
	for i, c := range s {
		switch c {
		case '(', '[':
			depth++
		case ')', ']':
			depth--
		case ',':
			if depth == 0 {
				out = append(out, strings.TrimSpace(s[last:i]))
				last = i + 1
			}
		}
	}
	if strings.TrimSpace(s[last:]) != "" {
		out = append(out, strings.TrimSpace(s[last:]))
	}
	return out
}

// parseParams parses "a int, b, c []byte, r *Buffer" into params (Go-style grouping).
func parseParams(s string) []Param {
	var ps []Param
	for _, part := range splitTop(s) {
		part = strings.TrimSpace(part)
		if part == "" {
			continue
		}
		k := strings.IndexAny(part, " \t")
		if k < 0 {
			ps = append(ps, Param{Name: part})
			continue
		}
		ps = append(ps, Param{Name: part[:k], Type: strings.TrimSpace(part[k+1:])})
	}
	// propagate types backwards for grouped names
	for i := len(ps) - 2; i >= 0; i-- {
		if ps[i].Type == "" {
			ps[i].Type = ps[i+1].Type
		}
	}
	return ps
}

// parseFuncHeader parses "(rb *Buffer) Write(p []byte) (n int, err error)" or "New(size int) *Buffer"
// or for iface: "Reader.Read(p []byte) (n int, err error)".
func parseFuncHeader(kw, s, pos string) (*Contract, error) {
	c := &Contract{Pos: pos}
	s = strings.TrimSpace(s)
	if kw == "lemma" {
		c.Lemma = true
	}
	if strings.HasPrefix(s, "(") {
		cp := matchParen(s, 0)
		if cp < 0 {
			return nil, fmt.Errorf("%s: bad receiver", pos)
		}
		rp := parseParams(s[1:cp])
		if len(rp) != 1 {
			return nil, fmt.Errorf("%s: bad receiver %q", pos, s[1:cp])
		}
		if rp[0].Type == "" {
			rp[0].Type, rp[0].Name = rp[0].Name, "_"
		}
		c.Recv = &rp[0]
		c.RecvPtr = strings.HasPrefix(rp[0].Type, "*")
		s = strings.TrimSpace(s[cp+1:])
	}
	op := strings.Index(s, "(")
	cp := matchParen(s, op)
	if op < 0 || cp < 0 {
		return nil, fmt.Errorf("%s: bad function header %q", pos, s)
	}
	name := strings.TrimSpace(s[:op])
	c.Params = parseParams(s[op+1 : cp])
	rest := strings.TrimSpace(s[cp+1:])
	if strings.HasPrefix(rest, "(") {
		rp := matchParen(rest, 0)
		c.Results = parseParams(rest[1:rp])
	} else if rest != "" {
		c.Results = []Param{{Name: "res", Type: rest}}
	}
	for i := range c.Results {
		if c.Results[i].Type == "" { // unnamed result list like (int, error)
			c.Results[i].Type = c.Results[i].Name
			c.Results[i].Name = fmt.Sprintf("res%d", i)
		}
	}
	switch {
	case kw == "functype":
		// contract of every value of a named function type (user callbacks stored in fields): applied at dynamic calls
		c.IsIface = true
		c.IsFuncType = true
		c.Key = "functype " + name
	case kw == "iface":
		c.IsIface = true
		c.Key = name
		c.Recv = &Param{Name: "self"}
	case c.Recv != nil:
		t := strings.TrimPrefix(c.Recv.Type, "*")
		if c.RecvPtr {
			c.Key = "(*" + t + ")." + name
		} else {
			c.Key = "(" + t + ")." + name
		}
	default:
		c.Key = name
	}
	return c, nil
}
