package main

// Solver portfolio: z3 5.1 (z3-new), z3 4.8.12, cvc5 1.0.3.

import (
	"bytes"
	"context"
	"fmt"
	"os"
	"os/exec"
	"path/filepath"
	"runtime"
	"strings"
	"sync"
	"sync/atomic"
	"time"
)

type SolverCfg struct {
	WorkDir  string
	Quick    time.Duration // first attempt with z3-new
	Full     time.Duration // portfolio timeout
	Parallel int
	AllAgree bool // thorough: run every solver, record disagreement
}

type solverAnswer struct {
	status string // unsat, sat, unknown, timeout, error
	solver string
	out    string
	ms     int64
}

var solverSeq int64

func runSolver(ctx context.Context, name, file string, timeout time.Duration) solverAnswer {
	var cmd *exec.Cmd
	secs := int(timeout.Seconds())
	if secs < 1 {
		secs = 1
	}
	switch name {
	case "z3-new":
		cmd = exec.CommandContext(ctx, "z3-new", "-smt2", fmt.Sprintf("-T:%d", secs), file)
	case "z3":
		cmd = exec.CommandContext(ctx, "z3", "-smt2", fmt.Sprintf("-T:%d", secs), file)
	case "cvc5":
		cmd = exec.CommandContext(ctx, "cvc5", "--lang", "smt2", fmt.Sprintf("--tlimit=%d", secs*1000), file)
	}
	var out bytes.Buffer
	cmd.Stdout = &out
	cmd.Stderr = &out
	t0 := time.Now()
	_ = cmd.Run()
	ms := time.Since(t0).Milliseconds()
	text := out.String()
	first := strings.TrimSpace(strings.SplitN(text, "\n", 2)[0])
	a := solverAnswer{solver: name, out: text, ms: ms}
	switch {
	case first == "unsat":
		a.status = "unsat"
	case first == "sat":
		a.status = "sat"
	case first == "unknown":
		a.status = "unknown"
	case strings.Contains(text, "timeout") || ctx.Err() != nil:
		a.status = "timeout"
	default:
		a.status = "error"
	}
	return a
}

// solveQuery decides one query; returns the deciding answer (or the best non-answer).
func solveQuery(cfg *SolverCfg, query string, label string) solverAnswer {
	id := atomic.AddInt64(&solverSeq, 1)
	file := filepath.Join(cfg.WorkDir, fmt.Sprintf("q%06d.smt2", id))
	if err := os.WriteFile(file, []byte(query), 0o644); err != nil {
		return solverAnswer{status: "error", out: err.Error()}
	}
	defer os.Remove(file)
	ctx := context.Background()
	a := runSolver(ctx, "z3-new", file, cfg.Quick)
	if a.status == "unsat" || a.status == "sat" {
		return a
	}
	first := a
	cctx, cancel := context.WithCancel(ctx)
	defer cancel()
	ch := make(chan solverAnswer, 3)
	solvers := []string{"z3", "cvc5", "z3-new"}
	for _, s := range solvers {
		go func(s string) { ch <- runSolver(cctx, s, file, cfg.Full) }(s)
	}
	var best solverAnswer = first
	var total int64 = first.ms
	for range solvers {
		r := <-ch
		if r.status == "unsat" || r.status == "sat" {
			r.ms += total
			return r
		}
		if r.status == "error" && best.status != "error" && r.solver != "cvc5" {
			best = r
		}
		if r.ms > best.ms && r.status != "error" {
			best.ms = r.ms
		}
	}
	best.ms += total
	return best
}

func modelFor(cfg *SolverCfg, assump []*Term, goal *Term) string {
	q := Query(assump, goal, true) + "(get-model)\n"
	id := atomic.AddInt64(&solverSeq, 1)
	file := filepath.Join(cfg.WorkDir, fmt.Sprintf("m%06d.smt2", id))
	if err := os.WriteFile(file, []byte(q), 0o644); err != nil {
		return ""
	}
	defer os.Remove(file)
	a := runSolver(context.Background(), "z3-new", file, cfg.Full)
	if a.status != "sat" {
		a = runSolver(context.Background(), "z3", file, cfg.Full)
	}
	if a.status == "sat" {
		return a.out
	}
	return ""
}

// Discharge runs all non-trivial obligations through the portfolio.
// Discharge proves the obligations on a pool of workers. The terms created while proving (instances of quantified
// assumptions, skolemised goals) are dropped from the hash-consing table whenever a few million have accumulated
// (the pool is drained first), which bounds memory.
func Discharge(cfg *SolverCfg, obls []*Obligation) {
	var wg sync.WaitGroup
	sem := make(chan struct{}, cfg.Parallel)
	mark := atomic.LoadInt64(&termCounter)
	last := mark
	defer func() { sweepInterned(mark) }()
	for _, o := range obls {
		if o.Trivial {
			continue
		}
		if atomic.LoadInt64(&termCounter)-last > 6000000 {
			// no barrier: a running obligation only loses sharing with terms it built before the sweep
			// (pointer inequality never means more than "not the same syntax tree")
			sweepInterned(mark)
			last = atomic.LoadInt64(&termCounter)
		}
		wg.Add(1)
		sem <- struct{}{}
		go func(o *Obligation) {
			defer wg.Done()
			defer func() { <-sem }()
			// a conjunctive goal is proved conjunct by conjunct (each gets its own skolemisation and hints)
			goals := splitGoal(o.Goal)
			o.Status = "discharged"
			// conjuncts that literally are assumptions need no solver
			have := map[*Term]bool{}
			for _, a := range o.Assump {
				have[a] = true
			}
			done := make([]bool, len(goals))
			var qf []*Term
			for gi, goal := range goals {
				if have[goal] || (goal.Op == "=>" && have[goal.Args[1]]) {
					done[gi] = true
				} else if !containsQuant(goal) {
					qf = append(qf, goal)
				}
			}
			// first attempt: the whole obligation in one ground query (every conjunct skolemised); on failure the
			// conjuncts are proved one by one below
			if pending := len(goals) - countTrue(done); pending > 1 && pending-len(qf) <= 10 && os.Getenv("GVC_WHOLE") != "" {
				var all []*Term
				okWhole := true
				for gi, goal := range goals {
					if done[gi] {
						continue
					}
					sg := skolemizeGoal(goal)
					if containsQuant(sg) {
						okWhole = false
						break
					}
					all = append(all, sg)
				}
				if okWhole {
					as, g := withHints(o.Assump, And(all...))
					var ground []*Term
					for _, t := range as {
						if !containsQuant(t) {
							ground = append(ground, t)
						}
					}
					aa := solveGround(cfg, QueryGround(ground, g))
					o.Ms += aa.ms
					if aa.status == "unsat" {
						o.Solver = aa.solver
						for gi := range goals {
							done[gi] = true
						}
						qf = nil
					}
				}
			}
			// all quantifier-free conjuncts together (one ground query instead of dozens)
			if len(qf) > 3 {
				as, g := withHints(o.Assump, And(qf...))
				var ground []*Term
				for _, t := range as {
					if !containsQuant(t) {
						ground = append(ground, t)
					}
				}
				aa := solveGround(cfg, QueryGround(ground, g))
				o.Ms += aa.ms
				if aa.status == "unsat" {
					o.Solver = aa.solver
					for gi, goal := range goals {
						if !containsQuant(goal) {
							done[gi] = true
						}
					}
				}
			}
			for gi, goal := range goals {
				if done[gi] {
					continue
				}
				as, g := withHints(o.Assump, goal)
				// stage A: ground instances only (quantified assumptions dropped: sound, and usually enough)
				var ground []*Term
				for _, t := range as {
					if t.Op == "forall" || t.Op == "exists" || (t.Op == "=>" && (t.Args[1].Op == "forall")) || containsQuant(t) {
						continue
					}
					ground = append(ground, t)
				}
				if !containsQuant(g) {
					qa := QueryGround(ground, g)
					aa := solveGround(cfg, qa)
					if d := os.Getenv("GVC_DUMPGROUND"); d != "" && aa.status != "unsat" {
						os.WriteFile(fmt.Sprintf("%s/ground_%s_%d_%d.smt2", d, sanitize(o.Name), o.Path, gi+1), []byte(qa), 0o644)
					}
					if aa.ms > 1500 && os.Getenv("GVC_SLOW") != "" {
						fmt.Printf("  slowground %s [%d/%d] %dms %s size=%d\n", o.Name, gi+1, len(goals), aa.ms, aa.status, len(qa))
					}
					o.Ms += aa.ms
					if strings.HasPrefix(aa.out, "solver disagreement") {
						o.Status = "failed-unknown"
						o.Solver = aa.solver
						o.Output = aa.out
						return
					}
					if aa.status == "unsat" {
						if o.Solver == "" {
							o.Solver = aa.solver
						}
						continue
					}
					if aa.status == "sat" && len(ground) == len(as) {
						// nothing was dropped: the counter-model is genuine
						o.Status = "failed-sat"
						o.Solver = "z3-new"
						o.Output = aa.out
						o.Model = groundModel(cfg, ground, g)
						return
					}
				}
				q := Query(as, g, false)
				if len(q) > 4<<20 {
					o.Status = "failed-unknown"
					o.Output = fmt.Sprintf("verification condition too large (%d bytes)", len(q))
					return
				}
				a := solveQuery(cfg, q, o.Name)
				if o.Solver == "" || a.status != "unsat" {
					o.Solver = a.solver
				}
				o.Ms += a.ms
				if a.ms > 1500 && os.Getenv("GVC_SLOW") != "" {
					gs := goal.String()
					if len(gs) > 200 {
						gs = gs[:200]
					}
					fmt.Printf("  slowconj %s [%d/%d] %dms %s: %s\n", o.Name, gi+1, len(goals), a.ms, a.solver, gs)
				}
				switch a.status {
				case "unsat":
				case "sat":
					o.Status = "failed-sat"
					o.Model = modelFor(cfg, o.Assump, goal)
					o.Output = a.out
					return
				default:
					o.Status = "failed-unknown"
					if os.Getenv("GVC_WHY") != "" {
						explainMissing(cfg, o.Name, ground, as, g)
					}
					if d := os.Getenv("GVC_DUMPFAIL"); d != "" {
						os.WriteFile(fmt.Sprintf("%s/fail_%d_%d.smt2", d, o.Path, gi+1), []byte(q), 0o644)
					}
					gs := goal.String()
					if len(gs) > 300 {
						gs = gs[:300] + "..."
					}
					o.Output = fmt.Sprintf("%s: %s\nconjunct %d of %d: %s", a.status, strings.TrimSpace(a.out), gi+1, len(goals), gs)
					return
				}
			}
		}(o)
	}
	wg.Wait()
}

// CheckSat expects the assumptions to be satisfiable (vacuity guard). Returns "sat", "unsat" or "unknown".
func CheckSat(cfg *SolverCfg, assump []*Term) solverAnswer {
	q := Query(assump, nil, false)
	id := atomic.AddInt64(&solverSeq, 1)
	file := filepath.Join(cfg.WorkDir, fmt.Sprintf("v%06d.smt2", id))
	if err := os.WriteFile(file, []byte(q), 0o644); err != nil {
		return solverAnswer{status: "error"}
	}
	defer os.Remove(file)
	hasQ := false
	var ground []*Term
	for _, t := range assump {
		if containsQuant(t) {
			hasQ = true
		} else {
			ground = append(ground, t)
		}
	}
	// quantified preconditions: satisfiability of the quantifier-free part (Ref constructors left free)
	gq := Query(ground, nil, false)
	gq = stripQuantifiedAsserts(gq)
	os.WriteFile(file, []byte(gq), 0o644)
	b := runSolver(context.Background(), "z3-new", file, 3*time.Second)
	if b.status == "sat" && hasQ {
		b.status = "sat (quantifier-free part)"
	}
	return b
}

func containsQuant(t *Term) bool { return t.hasQuant }

func countTrue(b []bool) int {
	n := 0
	for _, x := range b {
		if x {
			n++
		}
	}
	return n
}

// solveGround tries the quantifier-free weakening of a query with a short timeout.
func solveGround(cfg *SolverCfg, query string) solverAnswer {
	id := atomic.AddInt64(&solverSeq, 1)
	file := filepath.Join(cfg.WorkDir, fmt.Sprintf("g%06d.smt2", id))
	if err := os.WriteFile(file, []byte(query), 0o644); err != nil {
		return solverAnswer{status: "error"}
	}
	defer os.Remove(file)
	// generous: on the unchanged tree these queries take at most ~10 s on a loaded machine; a long limit only costs
	// time when an obligation really fails
	to := 2 * cfg.Full
	if to < 45*time.Second {
		to = 45 * time.Second
	}
	a := runSolver(context.Background(), "z3-new", file, to)
	a.solver = "z3-new(ground instances)"
	if cfg.AllAgree && a.status == "unsat" {
		// thorough tier: the other solvers are asked the same ground question; any "sat" is a disagreement and fails
		// the obligation, "unsat" answers are counted as confirmations, timeouts are tolerated
		confirmed := 0
		for _, other := range []string{"cvc5", "z3"} {
			b := runSolver(context.Background(), other, file, cfg.Quick)
			switch b.status {
			case "unsat":
				confirmed++
			case "sat":
				a.status = "error"
				a.out = "solver disagreement: z3-new says unsat, " + other + " says sat"
				return a
			}
		}
		atomic.AddInt64(&crossConfirmed, int64(confirmed))
		atomic.AddInt64(&crossAsked, 2)
		if confirmed > 0 {
			a.solver = "z3-new(ground instances)+confirmed"
		}
	}
	return a
}

// cross-check statistics of the thorough tier
var crossConfirmed, crossAsked int64

func stripQuantifiedAsserts(q string) string {
	var out []string
	for _, l := range strings.Split(q, "\n") {
		if strings.HasPrefix(l, "(assert (forall") {
			continue
		}
		out = append(out, l)
	}
	return strings.Join(out, "\n")
}

// splitGoal breaks a goal into conjuncts, also below implications: A => (B && C) becomes A => B, A => C.
func splitGoal(g *Term) []*Term {
	switch g.Op {
	case "and":
		var out []*Term
		for _, a := range g.Args {
			out = append(out, splitGoal(a)...)
		}
		return out
	case "=>":
		sub := splitGoal(g.Args[1])
		if len(sub) == 1 {
			return []*Term{g}
		}
		var out []*Term
		for _, c := range sub {
			out = append(out, Implies(g.Args[0], c))
		}
		return out
	case "ite":
		if g.Sort == BoolSort {
			var out []*Term
			out = append(out, splitGoal(Implies(g.Args[0], g.Args[1]))...)
			out = append(out, splitGoal(Implies(Not(g.Args[0]), g.Args[2]))...)
			return out
		}
	case "or":
		// (or a (and b1 .. bn)) splits like (=> (not a) (and b1 .. bn))
		for i, d := range g.Args {
			if d.Op != "and" && d.Op != "=>" {
				continue
			}
			sub := splitGoal(d)
			if len(sub) == 1 {
				continue
			}
			var rest []*Term
			for j, o := range g.Args {
				if j != i {
					rest = append(rest, Not(o))
				}
			}
			var out []*Term
			for _, c := range sub {
				out = append(out, Implies(And(rest...), c))
			}
			return out
		}
	}
	return []*Term{g}
}

func groundModel(cfg *SolverCfg, assump []*Term, goal *Term) string {
	q := "(set-option :produce-models true)\n" + QueryGround(assump, goal) + "(get-model)\n"
	id := atomic.AddInt64(&solverSeq, 1)
	file := filepath.Join(cfg.WorkDir, fmt.Sprintf("gm%06d.smt2", id))
	if err := os.WriteFile(file, []byte(q), 0o644); err != nil {
		return ""
	}
	defer os.Remove(file)
	a := runSolver(context.Background(), "z3-new", file, cfg.Full)
	if a.status == "sat" {
		return a.out
	}
	return ""
}

// explainMissing (debug aid): the ground stage answered sat; find a quantified assumption whose brute-force
// instantiation (all ground Int select indices of the query and the skolems, minus every rest) makes it unsat.
func explainMissing(cfg *SolverCfg, name string, ground, all []*Term, goal *Term) {
	seen := map[[2]int]bool{}
	sels := collectSelects(append(append([]*Term{}, ground...), goal), seen, 400)
	var idxs []*Term
	dup := map[*Term]bool{}
	for _, g := range sels {
		if g.app == "" && !dup[g.idx] && !g.ite {
			dup[g.idx] = true
			idxs = append(idxs, g.idx)
		}
	}
	fmt.Printf("  WHY %s: %d ground selects, %d distinct indices\n", name, len(sels), len(idxs))
	found := false
	defer func() {
		if found {
			return
		}
		// phase 2: instantiate all quantified assumptions at once, at skolem-derived indices only; then minimise
		var skIdx []*Term
		for _, g := range idxs {
			if strings.Contains(g.String(), "sk!") {
				skIdx = append(skIdx, g)
			}
		}
		type qinst struct {
			qi    int
			insts []*Term
		}
		var qs []qinst
		for qi, a := range all {
			var guard *Term
			q := a
			if a.Op == "=>" && a.Args[1].Op == "forall" {
				guard, q = a.Args[0], a.Args[1]
			}
			if q.Op != "forall" || len(q.Bound) != 1 || q.Bound[0].Sort != IntSort {
				continue
			}
			b := q.Bound[0]
			rests := []*Term{IntLit(0)}
			for _, p := range selectPatterns(q.Args[0], b) {
				rests = append(rests, p.rest)
			}
			var insts []*Term
			for _, r := range rests {
				for _, g := range skIdx {
					if len(insts) > 60 {
						break
					}
					inst := Substitute(q.Args[0], map[string]*Term{b.Name: Sub(g, r)})
					if guard != nil {
						inst = Implies(guard, inst)
					}
					insts = append(insts, inst)
				}
			}
			qs = append(qs, qinst{qi, insts})
		}
		build := func(skip map[int]bool) []*Term {
			out := append([]*Term{}, ground...)
			for _, q := range qs {
				if !skip[q.qi] {
					out = append(out, q.insts...)
				}
			}
			return out
		}
		skip := map[int]bool{}
		aa := solveGround(cfg, QueryGround(build(skip), goal))
		fmt.Printf("  WHY   phase 2: %d quantified assumptions x %d skolem-derived indices together: %s\n", len(qs), len(skIdx), aa.status)
		if aa.status != "unsat" {
			return
		}
		for _, q := range qs {
			skip[q.qi] = true
			if a2 := solveGround(cfg, QueryGround(build(skip), goal)); a2.status != "unsat" {
				delete(skip, q.qi)
			}
		}
		for _, q := range qs {
			if !skip[q.qi] {
				t := all[q.qi].String()
				if len(t) > 1500 {
					t = t[:1500]
				}
				fmt.Printf("  WHY   needed #%d: %s\n", q.qi, t)
			}
		}
	}()
	for qi, a := range all {
		var guard *Term
		q := a
		if a.Op == "=>" && a.Args[1].Op == "forall" {
			guard, q = a.Args[0], a.Args[1]
		}
		if q.Op != "forall" || len(q.Bound) != 1 || q.Bound[0].Sort != IntSort {
			continue
		}
		b := q.Bound[0]
		rests := []*Term{IntLit(0)}
		for _, p := range selectPatterns(q.Args[0], b) {
			rests = append(rests, p.rest)
		}
		var insts []*Term
		n := 0
		for _, r := range rests {
			for _, g := range idxs {
				if n > 600 {
					break
				}
				n++
				inst := Substitute(q.Args[0], map[string]*Term{b.Name: Sub(g, r)})
				if guard != nil {
					inst = Implies(guard, inst)
				}
				insts = append(insts, inst)
			}
		}
		qa := QueryGround(append(append([]*Term{}, ground...), insts...), goal)
		aa := solveGround(cfg, qa)
		if aa.status == "unsat" {
			qs := q.String()
			if len(qs) > 4000 {
				qs = qs[:4000]
			}
			found = true
			fmt.Printf("  WHY   under-instantiated assumption #%d (%d brute-force instances suffice): %s\n", qi, len(insts), qs)
		}
	}
}

// parallelism: number of solver workers (one per core, at most 16).
func parallelism() int {
	n := runtime.NumCPU()
	if n > 16 {
		n = 16
	}
	if n < 2 {
		n = 2
	}
	return n
}
