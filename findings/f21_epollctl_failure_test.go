//go:build linux

package gnet

// F21 (C18): a failing epoll_ctl(MOD) on behalf of one connection must close that connection with a non-nil OnClose
// error ("failure to change its poll registration"). On the unrepaired code the error of ModRead in eventloop.write and
// of ModReadWrite in eventloop.open / conn.Flush is handed to the poller loop (which ignores it) or to the caller: the
// connection stays open, OnClose never fires, and in level-triggered mode pending output is never sent.
//
// The fault is injected on the real code without touching it: right before the step under test the test installs a
// seccomp filter (no_new_privs, all threads) that makes every epoll_ctl(EPOLL_CTL_MOD) of this process fail with ENOMEM.
// The filter cannot be removed again, so every test of this file is run in a process of its own (findings/f21_run.sh).

import (
	"os"
	"testing"
	"unsafe"

	"golang.org/x/sys/unix"

	"github.com/panjf2000/gnet/v2/pkg/netpoll"
)

type f21Handler struct {
	BuiltinEventEngine
	reply    []byte
	closed   int
	closeErr error
}

func (h *f21Handler) OnOpen(_ Conn) ([]byte, Action) { return h.reply, None }

func (h *f21Handler) OnClose(_ Conn, err error) Action {
	h.closed++
	h.closeErr = err
	return None
}

func f21Setup(t *testing.T, reply []byte, open bool) (*f21Handler, *eventloop, *conn, [2]int) {
	if os.Getenv("F21_SINGLE") == "" {
		t.Skip("installs an irrevocable seccomp filter: run through findings/f21_run.sh, one test per process")
	}
	a, err := unix.Socketpair(unix.AF_UNIX, unix.SOCK_STREAM, 0)
	if err != nil {
		t.Skip(err)
	}
	_ = unix.SetNonblock(a[0], true)
	_ = unix.SetNonblock(a[1], true)
	p, err := netpoll.OpenPoller()
	if err != nil {
		t.Skip(err)
	}
	h := &f21Handler{reply: reply}
	opts := &Options{ReadBufferCap: 4096, WriteBufferCap: 4096} // level-triggered
	eng := &engine{opts: opts, eventHandler: h}
	el := &eventloop{engine: eng, poller: p, eventHandler: h, buffer: make([]byte, 4096)}
	el.connections.init()
	c := newStreamConn("unix", a[0], el, nil, nil, nil)
	if open {
		if err := el.register0(c); err != nil {
			t.Fatal(err)
		}
	}
	return h, el, c, a
}

// f21FailEpollMod makes every later epoll_ctl(_, EPOLL_CTL_MOD, ...) of this process fail with ENOMEM.
func f21FailEpollMod(t *testing.T) {
	filter := []unix.SockFilter{
		{Code: 0x20, K: 0},                                        // ld  [nr]
		{Code: 0x15, Jt: 0, Jf: 3, K: uint32(unix.SYS_EPOLL_CTL)}, // jeq epoll_ctl ? next : allow
		{Code: 0x20, K: 24},                                       // ld  [args[1]] (op, low word)
		{Code: 0x15, Jt: 0, Jf: 1, K: uint32(unix.EPOLL_CTL_MOD)}, // jeq MOD ? next : allow
		{Code: 0x06, K: 0x00050000 | uint32(unix.ENOMEM)},         // ret ERRNO(ENOMEM)
		{Code: 0x06, K: 0x7fff0000},                               // ret ALLOW
	}
	prog := unix.SockFprog{Len: uint16(len(filter)), Filter: &filter[0]}
	if err := unix.Prctl(unix.PR_SET_NO_NEW_PRIVS, 1, 0, 0, 0); err != nil {
		t.Skipf("no_new_privs: %v", err)
	}
	const seccompSetModeFilter, seccompFilterFlagTsync = 1, 1
	if _, _, e := unix.Syscall(unix.SYS_SECCOMP, seccompSetModeFilter, seccompFilterFlagTsync, uintptr(unsafe.Pointer(&prog))); e != 0 {
		t.Skipf("seccomp: %v", e)
	}
	if err := unix.EpollCtl(-1, unix.EPOLL_CTL_MOD, -1, nil); err != unix.ENOMEM {
		t.Skipf("filter not effective: %v", err)
	}
}

func f21Check(t *testing.T, where string, h *f21Handler, c *conn) {
	if c.opened || h.closed != 1 || h.closeErr == nil {
		t.Fatalf("epoll_ctl(MOD) failed in %s but the connection was not closed with a non-nil OnClose error (opened=%v, OnClose calls=%d, err=%v, pending output=%d)",
			where, c.opened, h.closed, h.closeErr, c.outboundBuffer.Buffered())
	}
}

// eventloop.write: the buffer has been drained, ModRead fails.
func TestF21WriteModReadFailure(t *testing.T) {
	h, el, c, _ := f21Setup(t, nil, true)
	_, _ = c.outboundBuffer.Write([]byte("pending"))
	if err := el.poller.ModReadWrite(&c.pollAttachment, false); err != nil {
		t.Fatal(err)
	}
	f21FailEpollMod(t)
	err := el.write(c)
	t.Logf("eventloop.write returned %v", err)
	f21Check(t, "eventloop.write", h, c)
}

// eventloop.open: the OnOpen reply is larger than the socket buffer, ModReadWrite fails: the rest would never be sent.
func TestF21OpenModReadWriteFailure(t *testing.T) {
	h, el, c, _ := f21Setup(t, make([]byte, 8<<20), false)
	f21FailEpollMod(t)
	err := el.register0(c)
	t.Logf("register0/open returned %v", err)
	f21Check(t, "eventloop.open", h, c)
}

// conn.Flush: data queued by ReadFrom, the kernel takes only part of it, ModReadWrite fails.
func TestF21FlushModReadWriteFailure(t *testing.T) {
	h, _, c, _ := f21Setup(t, nil, true)
	_, _ = c.outboundBuffer.Write(make([]byte, 8<<20))
	f21FailEpollMod(t)
	err := c.Flush()
	t.Logf("Flush returned %v", err)
	f21Check(t, "conn.Flush", h, c)
}

// conn.write: the kernel takes only part of the data, ModReadWrite fails (closed by conn.write's deferred check also before the repair).
func TestF21ConnWriteModReadWriteFailure(t *testing.T) {
	h, _, c, _ := f21Setup(t, nil, true)
	f21FailEpollMod(t)
	n, err := c.Write(make([]byte, 8<<20))
	t.Logf("Write returned %d, %v", n, err)
	f21Check(t, "conn.write", h, c)
}
