//go:build linux

package gnet

// F14 (C02/C18): Conn.Writev (and AsyncWritev) handed all segments to writev(2) at once. With more than IOV_MAX (1024)
// segments the kernel answers EINVAL, which conn.writev treated as a fatal I/O error: nothing was sent and the
// connection was closed ("writev: invalid argument"), although eventloop.write caps its vectors at iovMax.

import (
	"bytes"
	"testing"

	"golang.org/x/sys/unix"

	"github.com/panjf2000/gnet/v2/pkg/netpoll"
)

func TestF14WritevMoreThanIovMaxSegments(t *testing.T) {
	a, err := unix.Socketpair(unix.AF_UNIX, unix.SOCK_STREAM, 0)
	if err != nil {
		t.Skip(err)
	}
	_ = unix.SetNonblock(a[0], true)
	_ = unix.SetNonblock(a[1], true)
	p, err := netpoll.OpenPoller()
	if err != nil {
		t.Skip(err)
	}
	h := &BuiltinEventEngine{}
	opts := &Options{ReadBufferCap: 4096, WriteBufferCap: 4096}
	eng := &engine{opts: opts, eventHandler: h}
	el := &eventloop{engine: eng, poller: p, eventHandler: h, buffer: make([]byte, 4096)}
	el.connections.init()
	c := newStreamConn("unix", a[0], el, nil, nil, nil)
	if err := el.register0(c); err != nil {
		t.Fatal(err)
	}
	var bs [][]byte
	var want []byte
	for i := 0; i < 1100; i++ {
		b := []byte{byte(i), byte(i >> 8)}
		bs = append(bs, b)
		want = append(want, b...)
	}
	n, err := c.Writev(bs)
	if err != nil || n != len(want) || !c.opened {
		t.Fatalf("Writev of %d segments: n=%d err=%v opened=%v", len(bs), n, err, c.opened)
	}
	var got []byte
	buf := make([]byte, 8192)
	for len(got) < len(want) {
		m, err := unix.Read(a[1], buf)
		if m <= 0 || err != nil {
			// the rest is buffered: flush it as the event loop would on a writable event
			if c.outboundBuffer.IsEmpty() {
				break
			}
			if err := el.write(c); err != nil {
				t.Fatal(err)
			}
			continue
		}
		got = append(got, buf[:m]...)
	}
	if !bytes.Equal(got, want) {
		t.Fatalf("peer received %d bytes, want %d (equal prefix: %v)", len(got), len(want), bytes.HasPrefix(want, got))
	}
}
