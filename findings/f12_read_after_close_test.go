//go:build linux

package gnet

// F12 (C02/C04): in edge-triggered mode eventloop.read kept looping on a connection that the handler closed
// synchronously inside OnTraffic (EventLoop.Close, or a Write that fails). The descriptor number is free
// again at that point; as soon as anything else in the process opens a descriptor it gets that number, and
// the loop read the foreign socket's bytes and delivered them as OnTraffic on the already closed connection.
// This test plays that history deterministically on one goroutine: the handler closes the connection and then
// dups another socket (standing for an accept on a sibling event loop), which receives the released number.

import (
	"testing"

	"golang.org/x/sys/unix"

	"github.com/panjf2000/gnet/v2/pkg/netpoll"
)

type f12Handler struct {
	BuiltinEventEngine
	el         *eventloop
	foreign    int
	closed     int
	afterClose []string
}

func (h *f12Handler) OnTraffic(c Conn) Action {
	b, _ := c.Next(-1)
	if h.closed > 0 {
		h.afterClose = append(h.afterClose, string(b))
		return None
	}
	fd := c.Fd()
	_ = h.el.Close(c)
	// a descriptor opened anywhere in the process now gets the released number
	nfd, _ := unix.Dup(h.foreign)
	if nfd != fd {
		_ = unix.Dup2(h.foreign, fd)
	}
	return None
}

func (h *f12Handler) OnClose(Conn, error) Action { h.closed++; return None }

func TestF12ReadAfterCloseInOnTraffic(t *testing.T) {
	var a, b [2]int
	var err error
	if a, err = unix.Socketpair(unix.AF_UNIX, unix.SOCK_STREAM, 0); err != nil {
		t.Skip(err)
	}
	if b, err = unix.Socketpair(unix.AF_UNIX, unix.SOCK_STREAM, 0); err != nil {
		t.Skip(err)
	}
	_ = unix.SetNonblock(a[0], true)
	_ = unix.SetNonblock(b[0], true)
	p, err := netpoll.OpenPoller()
	if err != nil {
		t.Skip(err)
	}
	h := &f12Handler{foreign: b[0]}
	opts := &Options{EdgeTriggeredIO: true, EdgeTriggeredIOChunk: 1 << 20, ReadBufferCap: 4096, WriteBufferCap: 4096}
	eng := &engine{opts: opts, eventHandler: h}
	el := &eventloop{engine: eng, poller: p, eventHandler: h, buffer: make([]byte, 4096)}
	el.connections.init()
	h.el = el
	c := newStreamConn("unix", a[0], el, nil, nil, nil)
	if err := el.register0(c); err != nil {
		t.Fatal(err)
	}
	_, _ = unix.Write(a[1], []byte("mine"))
	_, _ = unix.Write(b[1], []byte("SOMEONE-ELSE"))
	_ = el.read(c)
	if h.closed != 1 {
		t.Fatalf("OnClose delivered %d times", h.closed)
	}
	if len(h.afterClose) > 0 {
		t.Fatalf("OnTraffic delivered after OnClose with bytes of another socket: %q", h.afterClose)
	}
}
