//go:build linux

package socket

// F11 (C17): itod assembles the decimal text backwards in a pooled buffer and returns buf[i:] after the loop has
// already stepped i one position below the first digit: the text of every non-zero number starts with one byte of
// whatever the pool buffer held. An IPv6 zone id that is not a local interface index therefore does not survive the
// conversion to net.Addr and back.

import (
	"net"
	"testing"

	"golang.org/x/sys/unix"
)

func TestF11ItodLeadingGarbage(t *testing.T) {
	if got := itod(4242); got != "4242" {
		t.Errorf("itod(4242) = %q", got)
	}
	const zone = 424242 // no such interface
	if _, err := net.InterfaceByIndex(zone); err == nil {
		t.Skip("interface exists")
	}
	sa := &unix.SockaddrInet6{Port: 80, ZoneId: zone}
	sa.Addr[0], sa.Addr[1], sa.Addr[15] = 0xfe, 0x80, 1
	addr := SockaddrToTCPOrUnixAddr(sa).(*net.TCPAddr)
	back, _ := TCPAddrToSockaddr(addr).(*unix.SockaddrInet6)
	if back == nil || back.ZoneId != zone {
		t.Errorf("zone %d became %q and then %v", zone, addr.Zone, back)
	}
}
