//go:build linux

package gnet

// F19 (C02): the OnOpen reply is written straight to the socket by conn.open even when earlier output of the same
// connection is still pending in the outbound buffer (a Write inside OnOpen that the kernel took only partly). If
// the socket has room again by then, the reply overtakes the pending bytes: the peer sees them out of order.
// Played on one goroutine: OnOpen writes more than the socket takes, the peer then drains the socket (it has
// room again), OnOpen returns its reply.

import (
	"bytes"
	"testing"

	"golang.org/x/sys/unix"

	"github.com/panjf2000/gnet/v2/pkg/netpoll"
)

type f19Handler struct {
	BuiltinEventEngine
	peer    int
	big     []byte
	drained []byte
}

func (h *f19Handler) OnOpen(c Conn) ([]byte, Action) {
	_, _ = c.Write(h.big)
	if c.OutboundBuffered() == 0 {
		return nil, None
	}
	// the peer reads what has arrived so far: the socket is writable again
	buf := make([]byte, 1<<16)
	for {
		n, err := unix.Read(h.peer, buf)
		if n <= 0 || err != nil {
			break
		}
		h.drained = append(h.drained, buf[:n]...)
	}
	return []byte("REPLY"), None
}

func TestF19OnOpenReplyOvertakesPendingData(t *testing.T) {
	a, err := unix.Socketpair(unix.AF_UNIX, unix.SOCK_STREAM, 0)
	if err != nil {
		t.Skip(err)
	}
	_ = unix.SetNonblock(a[0], true)
	_ = unix.SetNonblock(a[1], true)
	p, err := netpoll.OpenPoller()
	if err != nil {
		t.Skip(err)
	}
	h := &f19Handler{peer: a[1], big: bytes.Repeat([]byte("0123456789abcdef"), 1<<16)} // 1 MiB
	opts := &Options{ReadBufferCap: 4096, WriteBufferCap: 4096}
	eng := &engine{opts: opts, eventHandler: h}
	el := &eventloop{engine: eng, poller: p, eventHandler: h, buffer: make([]byte, 4096)}
	el.connections.init()
	c := newStreamConn("unix", a[0], el, nil, nil, nil)
	if err := el.register0(c); err != nil {
		t.Fatal(err)
	}
	if len(h.drained) == 0 {
		t.Skip("the socket took the whole write")
	}
	want := append(append([]byte{}, h.big...), "REPLY"...)
	got := h.drained
	buf := make([]byte, 1<<16)
	for len(got) < len(want) {
		n, err := unix.Read(a[1], buf)
		if n <= 0 || err != nil {
			if c.outboundBuffer.IsEmpty() {
				break
			}
			if err := el.write(c); err != nil {
				t.Fatal(err)
			}
			continue
		}
		got = append(got, buf[:n]...)
	}
	if !bytes.Equal(got, want) {
		i := 0
		for i < len(got) && i < len(want) && got[i] == want[i] {
			i++
		}
		end := i + 16
		if end > len(got) {
			end = len(got)
		}
		t.Fatalf("peer received %d bytes (want %d); first difference at offset %d: got %q", len(got), len(want), i, got[i:end])
	}
}
