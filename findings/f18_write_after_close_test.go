//go:build linux

package gnet

// F18 (C07): Conn.Write / Conn.Writev on a stream connection did not look at c.opened. A handler that writes
// twice in one callback (the first Write fails and closes the connection), or writes after EventLoop.Close,
// made the framework call write(2) on the released descriptor number; as soon as anything else in the process
// has reused that number, the bytes go into a foreign socket. Played deterministically on one goroutine: the
// handler closes the connection, a dup of another socket takes over the number, then the handler writes.

import (
	"testing"

	"golang.org/x/sys/unix"

	"github.com/panjf2000/gnet/v2/pkg/netpoll"
)

type f18Handler struct {
	BuiltinEventEngine
	el      *eventloop
	foreign int
	werr    error
	wverr   error
}

func (h *f18Handler) OnTraffic(c Conn) Action {
	_, _ = c.Next(-1)
	fd := c.Fd()
	_ = h.el.Close(c)
	if nfd, _ := unix.Dup(h.foreign); nfd != fd {
		_ = unix.Dup2(h.foreign, fd)
	}
	_, h.werr = c.Write([]byte("LEAK"))
	_, h.wverr = c.Writev([][]byte{[]byte("LE"), []byte("AK")})
	return None
}

func TestF18WriteAfterClose(t *testing.T) {
	a, err := unix.Socketpair(unix.AF_UNIX, unix.SOCK_STREAM, 0)
	if err != nil {
		t.Skip(err)
	}
	b, err := unix.Socketpair(unix.AF_UNIX, unix.SOCK_STREAM, 0)
	if err != nil {
		t.Skip(err)
	}
	_ = unix.SetNonblock(a[0], true)
	_ = unix.SetNonblock(b[1], true)
	p, err := netpoll.OpenPoller()
	if err != nil {
		t.Skip(err)
	}
	h := &f18Handler{foreign: b[0]}
	opts := &Options{ReadBufferCap: 4096, WriteBufferCap: 4096}
	eng := &engine{opts: opts, eventHandler: h}
	el := &eventloop{engine: eng, poller: p, eventHandler: h, buffer: make([]byte, 4096)}
	el.connections.init()
	h.el = el
	c := newStreamConn("unix", a[0], el, nil, nil, nil)
	if err := el.register0(c); err != nil {
		t.Fatal(err)
	}
	_, _ = unix.Write(a[1], []byte("x"))
	_ = el.read(c)
	buf := make([]byte, 64)
	n, _ := unix.Read(b[1], buf)
	if n > 0 {
		t.Fatalf("bytes written on a closed connection arrived in a foreign socket: %q (Write err %v, Writev err %v)", buf[:n], h.werr, h.wverr)
	}
	if h.werr == nil || h.wverr == nil {
		t.Fatalf("Write/Writev on a closed connection reported success: %v %v", h.werr, h.wverr)
	}
}
