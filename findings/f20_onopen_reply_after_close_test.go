//go:build linux

package gnet

// F20 (C07): eventloop.open sends the OnOpen reply without checking that the connection is still open. If the handler
// closed it inside OnOpen (EventLoop.Close, or a Write that failed), the reply is written to the released descriptor
// number, i.e. into whatever socket has reused that number meanwhile.

import (
	"testing"

	"golang.org/x/sys/unix"

	"github.com/panjf2000/gnet/v2/pkg/netpoll"
)

type f20Handler struct {
	BuiltinEventEngine
	el      *eventloop
	foreign int
}

func (h *f20Handler) OnOpen(c Conn) ([]byte, Action) {
	fd := c.Fd()
	_ = h.el.Close(c)
	if nfd, _ := unix.Dup(h.foreign); nfd != fd {
		_ = unix.Dup2(h.foreign, fd)
	}
	return []byte("REPLY"), None
}

func TestF20OnOpenReplyAfterClose(t *testing.T) {
	a, err := unix.Socketpair(unix.AF_UNIX, unix.SOCK_STREAM, 0)
	if err != nil {
		t.Skip(err)
	}
	b, err := unix.Socketpair(unix.AF_UNIX, unix.SOCK_STREAM, 0)
	if err != nil {
		t.Skip(err)
	}
	_ = unix.SetNonblock(a[0], true)
	_ = unix.SetNonblock(b[1], true)
	p, err := netpoll.OpenPoller()
	if err != nil {
		t.Skip(err)
	}
	h := &f20Handler{foreign: b[0]}
	opts := &Options{ReadBufferCap: 4096, WriteBufferCap: 4096}
	eng := &engine{opts: opts, eventHandler: h}
	el := &eventloop{engine: eng, poller: p, eventHandler: h, buffer: make([]byte, 4096)}
	el.connections.init()
	h.el = el
	c := newStreamConn("unix", a[0], el, nil, nil, nil)
	_ = el.register0(c)
	buf := make([]byte, 64)
	if n, _ := unix.Read(b[1], buf); n > 0 {
		t.Fatalf("the OnOpen reply of a connection closed inside OnOpen arrived in a foreign socket: %q", buf[:n])
	}
}
