#!/bin/sh
# Replays F21 on the real code: the finding test is injected into the root package by overlay (nothing is written into the
# repository); every test installs a seccomp filter that fails epoll_ctl(MOD), hence one process per test.
# usage: findings/f21_run.sh [repo]   exit 0: every connection was closed as C18 demands; 1: not closed; 2: could not run
REPO=${1:-/repo}
export GOFLAGS=-mod=mod GOPROXY=off GOSUMDB=off GOTOOLCHAIN=local
T=$(mktemp -d)
trap 'rm -rf $T' EXIT
printf '{"Replace":{"%s/zz_f21_test.go":"/verif/findings/f21_epollctl_failure_test.go"}}' "$REPO" > $T/ov.json
(cd $REPO && go test -overlay $T/ov.json -vet=off -c -o $T/gnet.test .) || exit 2
rc=0
for tst in TestF21WriteModReadFailure TestF21OpenModReadWriteFailure TestF21FlushModReadWriteFailure TestF21ConnWriteModReadWriteFailure; do
  F21_SINGLE=1 $T/gnet.test -test.run "^$tst\$" -test.count=1 -test.v -test.timeout 60s > $T/out.txt 2>&1
  if grep -q '^--- PASS' $T/out.txt; then echo "PASS $tst"
  elif grep -q '^--- SKIP' $T/out.txt; then echo "SKIP $tst: $(grep -m1 'zz_f21' $T/out.txt)"; [ $rc = 0 ] && rc=2
  else echo "FAIL $tst"; grep -E 'zz_f21' $T/out.txt | head -4; rc=1; fi
done
exit $rc
