//go:build linux

package gnet

// F13 (C02): level-triggered mode. Conn.ReadFrom queues data in the outbound buffer and Conn.Flush hands it to
// eventloop.write. If the kernel takes only part of it (EAGAIN or a short write), write returns nil with data still
// pending but without registering write interest (that is only done by conn.write/writev and eventloop.open). No
// writable event will ever come, so the rest is never sent although the peer keeps reading.

import (
	"bytes"
	"testing"
	"time"

	"golang.org/x/sys/unix"

	"github.com/panjf2000/gnet/v2/pkg/netpoll"
)

func TestF13ReadFromFlushLevelTriggeredStalls(t *testing.T) {
	a, err := unix.Socketpair(unix.AF_UNIX, unix.SOCK_STREAM, 0)
	if err != nil {
		t.Skip(err)
	}
	_ = unix.SetNonblock(a[0], true)
	_ = unix.SetNonblock(a[1], true)
	p, err := netpoll.OpenPoller()
	if err != nil {
		t.Skip(err)
	}
	h := &BuiltinEventEngine{}
	opts := &Options{ReadBufferCap: 4096, WriteBufferCap: 4096} // EdgeTriggeredIO false: level-triggered
	eng := &engine{opts: opts, eventHandler: h}
	el := &eventloop{engine: eng, poller: p, eventHandler: h, buffer: make([]byte, 4096)}
	el.connections.init()
	c := newStreamConn("unix", a[0], el, nil, nil, nil)
	if err := el.register0(c); err != nil {
		t.Fatal(err)
	}
	want := bytes.Repeat([]byte("0123456789abcdef"), 1<<16) // 1 MiB, more than the socket takes at once
	if _, err := c.ReadFrom(bytes.NewReader(want)); err != nil {
		t.Fatal(err)
	}
	if err := c.Flush(); err != nil {
		t.Fatal(err)
	}
	if c.OutboundBuffered() == 0 {
		t.Skip("the socket took everything")
	}
	// the event loop: dispatch events of this poller to the connection, as engine.orbit does
	go func() {
		_ = p.Polling(func(fd int, ev netpoll.IOEvent, flags netpoll.IOFlags) error {
			return c.processIO(fd, ev, flags)
		})
	}()
	var got []byte
	buf := make([]byte, 1<<16)
	deadline := time.Now().Add(2 * time.Second)
	for len(got) < len(want) && time.Now().Before(deadline) {
		n, err := unix.Read(a[1], buf)
		if n > 0 {
			got = append(got, buf[:n]...)
			continue
		}
		if err != nil && err != unix.EAGAIN {
			break
		}
		time.Sleep(time.Millisecond)
	}
	if len(got) != len(want) {
		t.Fatalf("peer received only %d of %d bytes after ReadFrom+Flush although it kept reading for 2s", len(got), len(want))
	}
}
