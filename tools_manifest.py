#!/usr/bin/env python3
"""Regenerates MANIFEST.json from props/*.json and manifest_meta.json (keeps it valid at all times)."""
import json, glob, os, subprocess
V = '/verif'
meta = json.load(open(f'{V}/manifest_meta.json'))
checks = []
claimed = []
for f in sorted(glob.glob(f'{V}/props/C*.json')):
    p = json.load(open(f))
    pid = p['id']
    m = meta['checks'].get(pid)
    if not m or not m.get('registered'):
        continue
    claimed.append(pid)
    checks.append({
        'property_id': pid,
        'quick_cmd': f'bin/check {pid} --tier quick',
        'thorough_cmd': f'bin/check {pid} --tier thorough',
        'evidence_file': f'/verif/evidence/{pid}.json',
        'replay_cmd_template': f'bin/check {pid} --replay {{path}}',
        'engine': 'gvc',
        'level_claimed': {'category': 'proof', 'text': m['text'], 'design_ref': m.get('design_ref', 'DESIGN.md section 6')},
        'level_note': m['level_note'],
        'technique': 'contract-based deductive verification: //@ contracts on the real functions, weakest-precondition style symbolic execution of go/ssa, obligations discharged by z3/cvc5',
    })
commits = subprocess.run(['git', '-C', '/repo', 'log', '--format=%h %s'], capture_output=True, text=True).stdout.splitlines()
hook_commits = [c.split()[0] for c in commits if c.split(' ', 1)[1].startswith('verif:')]
na = [x for x in meta['not_applicable'] if x['property_id'] not in claimed]
man = {
    'version': 1,
    'setup_cmd': 'sh /verif/bin/setup.sh',
    'hooks': {
        'guard': 'verif',
        'enable': '-tags verif (zz_contracts_verif.go files are comment-only; zz_lemmas_verif.go files hold never-called lemma functions; both carry //go:build verif)',
        'baseline_off_cmd': 'cd /repo && go test -vet=off -count=1 -timeout 25m ./...',
        'source_commits': hook_commits,
        'add_only': True,
    },
    'engines': [{'name': 'gvc', 'path': '/verif/gvc', 'serves_properties': claimed,
                 'kind_free_text': 'contract-based deductive verifier for Go written for this task: symbolic execution of go/ssa (naive form) of /repo\'s working tree against //@ contracts kept in build-tag-guarded files beside the code, obligations discharged by z3 4.8.12 / z3 5.1.0 / cvc5 1.0.3'}],
    'checks': checks,
    'notes': meta['notes'],
    'not_applicable': na,
}
json.dump(man, open(f'{V}/MANIFEST.json', 'w'), indent=1)
print('claimed:', claimed, 'hook commits:', hook_commits)
