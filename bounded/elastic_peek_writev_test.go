package elastic

// Bounded stand-in (labelled bounded, not a proof) for elastic.Buffer.Peek and Writev, the two functions whose
// contracts speak about the concatenation of [][]byte segments: every operation sequence of length <= 4 over
// {Write(k), Writev(a,b), Discard(k), Peek(n) for all n} with small static limits is run against a plain []byte model.

import (
	"bytes"
	"io"
	"math"
	"testing"
)

type zzop struct {
	kind int // 0 Write, 1 Writev, 2 Discard
	a, b int
}

func TestZZBoundedElasticPeekWritev(t *testing.T) {
	var ops []zzop
	for _, k := range []int{1, 3, 5} {
		ops = append(ops, zzop{0, k, 0})
	}
	for _, a := range []int{0, 2, 4} {
		for _, b := range []int{0, 3} {
			ops = append(ops, zzop{1, a, b})
		}
	}
	for _, k := range []int{1, 2, 4} {
		ops = append(ops, zzop{2, k, 0})
	}
	cases := 0
	for _, limit := range []int{1, 4, 1024 + 2} {
		var run func(seq []zzop, depth int)
		run = func(seq []zzop, depth int) {
			// replay seq on a fresh buffer
			mb, _ := New(limit)
			var model []byte
			next := byte(1)
			mk := func(n int) []byte {
				b := make([]byte, n)
				for i := range b {
					b[i] = next
					next++
				}
				return b
			}
			for _, op := range seq {
				switch op.kind {
				case 0:
					p := mk(op.a)
					n, err := mb.Write(p)
					if n != len(p) || err != nil {
						t.Fatalf("Write: %d %v", n, err)
					}
					model = append(model, p...)
				case 1:
					p, q := mk(op.a), mk(op.b)
					n, err := mb.Writev([][]byte{p, q})
					if n != len(p)+len(q) || err != nil {
						t.Fatalf("limit %d seq %v: Writev returned %d %v", limit, seq, n, err)
					}
					model = append(model, p...)
					model = append(model, q...)
				case 2:
					d, _ := mb.Discard(op.a)
					w := op.a
					if w > len(model) {
						w = len(model)
					}
					if d != w {
						t.Fatalf("limit %d seq %v: Discard(%d) = %d, want %d", limit, seq, op.a, d, w)
					}
					model = model[w:]
				}
				if mb.Buffered() != len(model) || mb.IsEmpty() != (len(model) == 0) {
					t.Fatalf("limit %d seq %v: Buffered %d IsEmpty %v, model %d", limit, seq, mb.Buffered(), mb.IsEmpty(), len(model))
				}
			}
			ns := []int{math.MaxInt32, -1, 0}
			for n := 1; n <= len(model)+1; n++ {
				ns = append(ns, n)
			}
			for _, n := range ns {
				cases++
				res, err := mb.Peek(n)
				var got []byte
				for _, s := range res {
					got = append(got, s...)
				}
				if n > 0 && n != math.MaxInt32 && n > len(model) {
					if err != io.ErrShortBuffer {
						t.Fatalf("limit %d seq %v: Peek(%d) with %d buffered: err %v", limit, seq, n, len(model), err)
					}
					continue
				}
				exp := model
				if n > 0 && n != math.MaxInt32 {
					exp = model[:n]
				}
				if err != nil || !bytes.Equal(got, exp) {
					t.Fatalf("limit %d seq %v: Peek(%d) = %v err %v, want %v", limit, seq, n, got, err, exp)
				}
				if mb.Buffered() != len(model) {
					t.Fatalf("Peek consumed data")
				}
			}
			if depth == 0 {
				return
			}
			for _, op := range ops {
				run(append(append([]zzop(nil), seq...), op), depth-1)
			}
		}
		run(nil, 4)
	}
	t.Logf("GVC-BOUNDED cases=%d", cases)
}
