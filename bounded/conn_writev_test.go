//go:build linux

package gnet

// Bounded stand-in (labelled bounded, not a proof) for the part of conn.writev's contract that is not proved: that the
// accepted outbound stream grows by exactly the concatenation of the segments (the function rewrites its [][]byte
// argument in place while accounting for partial writev(2) results). The real code runs on a real socket pair whose
// send buffer is as small as the kernel allows; everything the peer receives is compared with a []byte model.

import (
	"bytes"
	"testing"

	"golang.org/x/sys/unix"

	"github.com/panjf2000/gnet/v2/pkg/netpoll"
)

func zzWritevCase(t *testing.T, et bool, pending int, segs []int, drainEvery int) {
	a, err := unix.Socketpair(unix.AF_UNIX, unix.SOCK_STREAM, 0)
	if err != nil {
		t.Skip(err)
	}
	defer unix.Close(a[1])
	_ = unix.SetNonblock(a[0], true)
	_ = unix.SetNonblock(a[1], true)
	_ = unix.SetsockoptInt(a[0], unix.SOL_SOCKET, unix.SO_SNDBUF, 1)
	p, err := netpoll.OpenPoller()
	if err != nil {
		t.Skip(err)
	}
	defer p.Close()
	h := &BuiltinEventEngine{}
	opts := &Options{ReadBufferCap: 4096, WriteBufferCap: 4096, EdgeTriggeredIO: et, EdgeTriggeredIOChunk: 1 << 20}
	eng := &engine{opts: opts, eventHandler: h}
	el := &eventloop{engine: eng, poller: p, eventHandler: h, buffer: make([]byte, 4096)}
	el.connections.init()
	c := newStreamConn("unix", a[0], el, nil, nil, nil)
	if err := el.register0(c); err != nil {
		t.Fatal(err)
	}
	next := byte(1)
	mk := func(n int) []byte {
		b := make([]byte, n)
		for i := range b {
			b[i] = next
			next++
			if next == 0 {
				next = 1
			}
		}
		return b
	}
	var want, got []byte
	buf := make([]byte, 1<<16)
	drain := func() {
		for {
			n, err := unix.Read(a[1], buf)
			if n <= 0 || err != nil {
				return
			}
			got = append(got, buf[:n]...)
		}
	}
	if pending > 0 {
		pd := mk(pending)
		want = append(want, pd...)
		if n, err := c.Write(pd); n != len(pd) || err != nil {
			t.Fatalf("Write(%d) = %d, %v", len(pd), n, err)
		}
	}
	var bs [][]byte
	total := 0
	for i, l := range segs {
		b := mk(l)
		bs = append(bs, b)
		want = append(want, b...)
		total += l
		if drainEvery > 0 && i%drainEvery == 0 {
			drain()
		}
	}
	n, err := c.Writev(bs)
	if err != nil || n != total || !c.opened {
		t.Fatalf("et=%v pending=%d segs=%v: Writev = %d, %v (opened %v), want %d", et, pending, segs, n, err, c.opened, total)
	}
	for rounds := 0; len(got) < len(want) && rounds < 1<<16; rounds++ {
		drain()
		if !c.outboundBuffer.IsEmpty() {
			if err := el.write(c); err != nil {
				t.Fatal(err)
			}
		}
	}
	drain()
	if !bytes.Equal(got, want) {
		i := 0
		for i < len(got) && i < len(want) && got[i] == want[i] {
			i++
		}
		t.Fatalf("et=%v pending=%d segs=%v: peer received %d bytes, want %d, first difference at %d", et, pending, segs, len(got), len(want), i)
	}
	_ = el.close(c, nil)
}

func TestZZBoundedConnWritev(t *testing.T) {
	cases := 0
	var shapes [][]int
	var gen func(cur []int)
	gen = func(cur []int) {
		shapes = append(shapes, append([]int(nil), cur...))
		if len(cur) == 3 {
			return
		}
		for _, l := range []int{0, 1, 3} {
			gen(append(cur, l))
		}
	}
	gen(nil)
	many := make([]int, 1030)
	for i := range many {
		many[i] = 1 + i%3
	}
	// back-pressure with far more than IOV_MAX segments still unsent when the kernel says EAGAIN
	huge := make([]int, 3000)
	for i := range huge {
		huge[i] = 1024
	}
	shapes = append(shapes, many, []int{70000, 0, 70000, 5}, []int{3, 200000, 1}, []int{150000, 150000, 150000}, huge)
	for _, et := range []bool{false, true} {
		for _, pending := range []int{0, 5, 300000} {
			for _, s := range shapes {
				for _, de := range []int{0, 1} {
					zzWritevCase(t, et, pending, s, de)
					cases++
				}
			}
		}
	}
	t.Logf("GVC-BOUNDED cases=%d", cases)
}
