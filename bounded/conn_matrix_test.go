//go:build gc_opt && linux

package gnet

// Bounded stand-in (labelled bounded, not a proof) for the compacting matrix registry of the gc_opt build
// (conn_matrix.go), which is not under contract (its invariant needs the number of occupied slots per row). The real
// code is driven against a plain map model: (A) every sequence of <= 7 add/remove operations over 4 descriptors,
// (B) long runs that cross row boundaries (more than 65536 live connections) with removals at the front, in the
// middle, at the end and of whole rows, (C) the shutdown pattern: iteration that removes every visited connection.
// After every step: lookup of every descriptor ever used, the count, and one full iteration are compared.

import (
	"testing"
)

type zzReg struct {
	cm    connMatrix
	model map[int]*conn
	seen  map[int]bool
	t     *testing.T
}

func newZZReg(t *testing.T) *zzReg {
	r := &zzReg{model: map[int]*conn{}, seen: map[int]bool{}, t: t}
	r.cm.init()
	return r
}

func (r *zzReg) add(fd int) {
	c := &conn{fd: fd}
	r.cm.addConn(c, 0)
	r.model[fd] = c
	r.seen[fd] = true
}

func (r *zzReg) del(fd int) {
	r.cm.delConn(r.model[fd])
	delete(r.model, fd)
}

func (r *zzReg) check(what string, full bool) {
	if n := int(r.cm.loadCount()); n != len(r.model) {
		r.t.Fatalf("%s: count %d, model %d", what, n, len(r.model))
	}
	if full {
		for fd := range r.seen {
			if got, want := r.cm.getConn(fd), r.model[fd]; got != want {
				r.t.Fatalf("%s: getConn(%d) = %p, want %p", what, fd, got, want)
			}
		}
	}
	visited := map[*conn]int{}
	r.cm.iterate(func(c *conn) bool { visited[c]++; return true })
	if len(visited) != len(r.model) {
		r.t.Fatalf("%s: iterate visited %d connections, model has %d", what, len(visited), len(r.model))
	}
	for _, c := range r.model {
		if visited[c] != 1 {
			r.t.Fatalf("%s: connection fd=%d visited %d times", what, c.fd, visited[c])
		}
	}
}

func TestZZBoundedConnMatrix(t *testing.T) {
	cases := 0
	// (A) all short sequences
	fds := []int{3, 4, 5, 6}
	var rec func(seq []int, depth int)
	rec = func(seq []int, depth int) {
		r := newZZReg(t)
		for _, fd := range seq {
			if _, ok := r.model[fd]; ok {
				r.del(fd)
			} else {
				r.add(fd)
			}
			r.check("short sequence", true)
			cases++
		}
		if depth == 0 {
			return
		}
		for _, fd := range fds {
			rec(append(append([]int(nil), seq...), fd), depth-1)
		}
	}
	rec(nil, 7)

	// (B) across row boundaries
	const col = 1 << 16
	for _, n := range []int{col - 1, col, col + 1, 2*col + 3} {
		r := newZZReg(t)
		for fd := 10; fd < 10+n; fd++ {
			r.add(fd)
		}
		r.check("filled", true)
		// remove the first, one in the middle, the last, and the ones around the row boundary
		for _, fd := range []int{10, 10 + n/2, 10 + n - 1, 10 + col - 1, 10 + col, 10 + col + 1} {
			if _, ok := r.model[fd]; ok {
				r.del(fd)
				r.check("after single removal", true)
				cases++
			}
		}
		// re-add some, remove a whole stretch from the front
		for fd := 10 + n; fd < 10+n+5; fd++ {
			r.add(fd)
		}
		r.check("after re-adding", true)
		k := 0
		for fd := 10; fd < 10+n && k < 300; fd++ {
			if _, ok := r.model[fd]; ok {
				r.del(fd)
				k++
				if k%50 == 0 {
					r.check("while removing a stretch", false)
				}
			}
		}
		r.check("after removing a stretch", true)
		// (C) shutdown pattern
		var victims []*conn
		r.cm.iterate(func(c *conn) bool {
			victims = append(victims, c)
			r.cm.delConn(c)
			delete(r.model, c.fd)
			return true
		})
		if len(r.model) != 0 || r.cm.loadCount() != 0 {
			t.Fatalf("shutdown pattern left %d in the model, count %d (visited %d)", len(r.model), r.cm.loadCount(), len(victims))
		}
		r.check("after shutdown pattern", true)
		r.add(7)
		r.add(8)
		r.check("reused after shutdown", true)
		cases++
	}
	t.Logf("GVC-BOUNDED cases=%d", cases)
}
