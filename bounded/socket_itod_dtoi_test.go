//go:build linux

package socket

// Bounded stand-in (labelled bounded, not a proof) for the value equation of the decimal helpers: itod(v) is the decimal
// text of v and dtoi reads it back. The contracts prove shape (digits only, no leading zero, length 1 iff v < 10, last
// digit); the full equation needs induction over powers of ten and is checked here on a finite set instead.

import (
	"strconv"
	"testing"
)

func TestZZBoundedItodDtoi(t *testing.T) {
	cases := 0
	check := func(v uint) {
		cases++
		s := itod(v)
		if want := strconv.FormatUint(uint64(v), 10); s != want {
			t.Fatalf("itod(%d) = %q, want %q", v, s, want)
		}
		n, i, ok := dtoi(s, 0)
		if v < big-0 && v < 0xFFFFFF {
			if !ok || uint(n) != v || i != len(s) {
				t.Fatalf("dtoi(itod(%d)) = %d, %d, %v", v, n, i, ok)
			}
		} else if ok {
			t.Fatalf("dtoi(%q) accepted a value >= 0xFFFFFF", s)
		}
	}
	for v := uint(0); v <= 200000; v++ {
		check(v)
	}
	p := uint(1)
	for k := 0; k < 20; k++ {
		for _, d := range []uint{0, 1, 2, 9} {
			check(p - 1 + d)
			check(p*d + d)
		}
		if k < 19 {
			p *= 10
		}
	}
	for _, v := range []uint{0xFFFFFE, 0xFFFFFF, 0x1000000, 1<<32 - 1, 1 << 32, 1<<63 - 1, 1 << 63, 1<<64 - 1} {
		check(v)
	}
	t.Logf("GVC-BOUNDED cases=%d", cases)
}
