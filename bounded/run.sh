#!/bin/sh
# usage: run.sh <pkgdir relative to repo> <test source under /verif/bounded> <TestName> [build tags]
# Injects an in-package test through -overlay (nothing is written into the repository) and runs it.
set -e
REPO="${GVC_REPO:-/repo}"
PKG="$1"; SRC="/verif/bounded/$2"; TEST="$3"; TAGS="${4:-}"
export GOFLAGS=-mod=mod GOPROXY=off GOSUMDB=off GOTOOLCHAIN=local
TMP=$(mktemp -d)
trap 'rm -rf "$TMP"' EXIT
cp "$SRC" "$TMP/zz_gvc_bounded_test.go"
printf '{"Replace":{"%s/%s/zz_gvc_bounded_test.go":"%s/zz_gvc_bounded_test.go"}}' "$REPO" "$PKG" "$TMP" > "$TMP/ov.json"
cd "$REPO"
set +e
go test -tags "$TAGS" -overlay "$TMP/ov.json" -vet=off -count=1 -timeout 600s -v -run "^${TEST}\$" "./$PKG" > "$TMP/out.txt" 2>&1
rc=$?
grep -v "^=== RUN\|^=== PAUSE\|^=== CONT" "$TMP/out.txt" | tail -15
exit $rc
