package linkedlist

// Bounded stand-in (labelled bounded, not a proof) for PeekWithBytes: exhaustive over lists of up to 3 nodes
// with lengths 1..3, up to 2 prefixed slices of lengths 0..3, and every maxBytes in -1..total+2 and MaxInt32.
// Oracle: concatenation of the result == first n bytes of (bs... ++ list); ErrShortBuffer iff 0 < n != MaxInt32 and n > total.

import (
	"bytes"
	"io"
	"math"
	"testing"
)

func TestZZBoundedPeekWithBytes(t *testing.T) {
	cases := 0
	var lens [][]int
	var gen func(cur []int, k int)
	gen = func(cur []int, k int) {
		lens = append(lens, append([]int(nil), cur...))
		if k == 0 {
			return
		}
		for l := 1; l <= 3; l++ {
			gen(append(cur, l), k-1)
		}
	}
	gen(nil, 3)
	for _, ls := range lens {
		for nb := 0; nb <= 2; nb++ {
			var bl [][]int
			var g2 func(cur []int, k int)
			g2 = func(cur []int, k int) {
				if k == 0 {
					bl = append(bl, append([]int(nil), cur...))
					return
				}
				for l := 0; l <= 3; l++ {
					g2(append(cur, l), k-1)
				}
			}
			g2(nil, nb)
			for _, bls := range bl {
				var llb Buffer
				var want []byte
				next := byte(1)
				var bs [][]byte
				for _, l := range bls {
					b := make([]byte, l)
					for i := range b {
						b[i] = next
						next++
					}
					bs = append(bs, b)
					want = append(want, b...)
				}
				for _, l := range ls {
					b := make([]byte, l)
					for i := range b {
						b[i] = next
						next++
					}
					llb.PushBack(b)
					want = append(want, b...)
				}
				total := len(want)
				ns := []int{math.MaxInt32}
				for n := -1; n <= total+2; n++ {
					ns = append(ns, n)
				}
				for _, n := range ns {
					cases++
					res, err := llb.PeekWithBytes(n, bs...)
					var got []byte
					for _, s := range res {
						got = append(got, s...)
					}
					short := n > 0 && n != math.MaxInt32 && n > total
					if short {
						if err != io.ErrShortBuffer {
							t.Fatalf("list %v bs %v n=%d: want ErrShortBuffer, got %v (%v)", ls, bls, n, err, got)
						}
						continue
					}
					exp := want
					if n > 0 && n != math.MaxInt32 {
						exp = want[:n]
					}
					if err != nil || !bytes.Equal(got, exp) {
						t.Fatalf("list %v bs %v n=%d: got %v err %v, want %v", ls, bls, n, got, err, exp)
					}
					if llb.Buffered() != total-lenSum(bls) {
						t.Fatalf("PeekWithBytes consumed data")
					}
				}
			}
		}
	}
	t.Logf("GVC-BOUNDED cases=%d", cases)
}

func lenSum(a []int) int {
	s := 0
	for _, x := range a {
		s += x
	}
	return s
}
